"""C01 - validity verdicts agree with the JSON Schema specification (reference-free schemas, drafts 3/4/6/7)."""
import random

from harness import tlc, regex, calibrate
from harness.common import Check, draft_classes, pmap, outcome_of
from harness.encode import enc, dec, enc_str, Unencodable
from harness.gen_schema import Gen

DRAFTS = (3, 4, 6, 7)
_CLS = None
_INST = None


def _cls():
    global _CLS
    if _CLS is None:
        _CLS = draft_classes()
    return _CLS


def replay_one(task):
    """(d, schema, bits) -> list of problems; bits[i] in {0 invalid, 1 valid, 2 not judged}"""
    d, S, bits = task
    cls = _cls()[d]
    out = []
    r = outcome_of(lambda: cls.check_schema(S))
    if r[0] != "ok":
        return [("not_accepted", None, r[1:])]      # outside C01's quantifier (accept/reject itself is C11's claim)
    # the very same schema object has just been used by the validator class of ANOTHER draft (a schema belongs to no
    # class: what a keyword means is decided by the class asked, every time)
    other = _cls()[{3: 7, 4: 6, 6: 4, 7: 3}[d]]
    for I0 in (_INST[0], _INST[len(_INST) // 2], _INST[-1]):
        outcome_of(lambda: other(S).is_valid(I0))
    v = cls(S)
    for i, want in enumerate(bits):
        if want == 2:
            continue
        r = outcome_of(lambda: v.is_valid(_INST[i]))
        if r[0] != "ok":
            out.append(("raises", i, r[1:]))
        elif r[1] != bool(want):
            out.append(("verdict", i, r[1]))
    return out


def record_one(task):
    """(id, d, seed) -> record dict or None; runs the real validator"""
    i, d, seed = task
    rng = random.Random(seed)
    g = Gen(rng, d)
    S = g.schema()
    cls = _cls()[d]
    if outcome_of(lambda: cls.check_schema(S))[0] != "ok":
        return ("rejected", i)
    v = cls(S)
    recs = []
    for j in range(4):
        I = g.instance(S)
        r = outcome_of(lambda: v.is_valid(I))
        if r[0] != "ok":
            recs.append(("raised", d, S, I, r[1:]))
            continue
        try:
            recs.append(("rec", {"id": i * 4 + j, "d": d, "S": enc(S), "I": enc(I), "base": [], "uselib": False,
                                 "pats": regex.pats_table([S]), "valid": r[1]}, S, I))
        except Unencodable:
            recs.append(("unencodable",))
    return ("ok", recs)


def main(args):
    global _INST
    ck = Check("C01", args.tier, args.seed)
    quick = args.tier == "quick"
    ck.rule = ("schemas = reachable states of the SchemaBuilder machine spec/mc/MC_Schema over the per-draft keyword pools of "
               "SchemaUniverse (quick: singles, all pairs and orders inside the interacting families, every single wrapped "
               "under every applicator; thorough: family triples, all keyword pairs, wrapped pairs) x 36 instances x 4 "
               "drafts; plus seeded random deep schemas (depth <= 4, <= 6 keywords, guided instances) whose recorded "
               "verdicts TLC validates (Trace_Verdict), together with the verdict the real classes give on every case of the bundled official suite. A (schema, instance) case is non-trivial when the schema has at "
               "least one keyword of the draft and is distinct by canonical hash of (draft, schema, instance); "
               "nontrivial_schemas counts schemas with both a valid and an invalid instance in the list.")
    cfgs = ["quick"] if quick else ["thoroughF", "thoroughP"]
    jobs = [dict(module="mc/MC_Schema.tla", cfg="mc/MC_Schema_%s_d%d.cfg" % (c, d), workers=4 if quick else 8,
                 timeout=7000, heap="5g") for c in cfgs for d in DRAFTS]
    wd = tlc.workdir("c01lib")
    lib = calibrate.write_lib(wd + "/lib.json")
    for j in jobs:
        j["env"] = {"LIB_FILE": lib}
    results = tlc.run_many(jobs, parallel=4 if quick else 2)
    tasks = []
    for job, r in zip(jobs, results):
        if r.violation:
            raise tlc.MachineryFailure("spec-level property violated in %s: %s" % (job["cfg"], r.violation))
        ck.add_tlc(r)
        d = int(job["cfg"].split("_d")[1][0])
        for ex in r.exports:
            if "instances" in ex:
                inst = [dec(x) for x in ex["instances"]]
                if _INST is None:
                    _INST = inst
                elif repr(_INST) != repr(inst):
                    raise tlc.MachineryFailure("instance lists differ between models")
                continue
            tasks.append((d, dec(ex["S"]), ex["v"]))
    outs = pmap(replay_one, tasks)
    both = 0
    for (d, S, bits), probs in zip(tasks, outs):
        ck.replayed += 1
        judged = [b for b in bits if b != 2]
        ck.skipped += len(bits) - len(judged)
        if 0 in judged and 1 in judged:
            both += 1
        for i, b in enumerate(bits):
            if b != 2:
                ck.count((d, repr(S), i), bool(S))
        if len(ck.samples) < 3 and 0 in judged and 1 in judged and len(S) > 1:
            ck.sample({"draft": d, "schema": S, "valid_instances": [_INST[i] for i, b in enumerate(bits) if b == 1][:4],
                       "invalid_instances": [_INST[i] for i, b in enumerate(bits) if b == 0][:4]})
        for kind, i, info in probs:
            case = {"draft": d, "schema": S, "source": "MC_Schema"}
            if i is not None:
                case.update(instance=_INST[i], spec_valid=bool(bits[i]), observed=info)
            else:
                case.update(observed=info)
            if kind == "not_accepted":
                ck.skipped += len(bits)
                ck.notes["universe_schemas_rejected_by_check_schema"] = ck.notes.get("universe_schemas_rejected_by_check_schema", 0) + 1
                continue
            if kind == "raises":
                ck.notes.setdefault("crashes_left_to_C03", 0)
                ck.notes["crashes_left_to_C03"] += 1
                continue
            ck.violation(kind, case)
    ck.notes["nontrivial_schemas"] = both
    ck.exhaustive = True

    # ---- code -> spec: random deep schemas, verdicts recorded from the code, judged by TLC -----------------
    n = 1500 if quick else 60000
    seeds = [(i, DRAFTS[i % 4], args.seed * 1000003 + i) for i in range(n)]
    outs = pmap(record_one, seeds, chunk=32)
    recs, real = [], {}
    rejected = 0
    for o in outs:
        if o[0] == "rejected":
            rejected += 1
            continue
        for x in o[1]:
            if x[0] == "rec":
                recs.append(x[1])
                real[x[1]["id"]] = {"draft": x[1]["d"], "schema": x[2], "instance": x[3], "observed_valid": x[1]["valid"]}
                ck.count((x[1]["d"], repr(x[2]), repr(x[3])), bool(x[2]))
            elif x[0] == "raised":
                ck.notes["crashes_left_to_C03"] = ck.notes.get("crashes_left_to_C03", 0) + 1
    ck.notes["random_schemas_rejected_by_check_schema"] = rejected
    # the official suite cases, with the verdict the REAL classes give (not the suite's expectation): the executions the
    # repository's own tests perform, judged by the specification (reference-bearing cases included, through the
    # suite's remotes in the library)
    import jsonschema
    suite_n = 0
    for k, (d, rel, ci, ti, case, t) in enumerate(calibrate.suite_cases()):
        cls = _cls()[d]
        try:
            store = {u: doc for u, doc in calibrate.suite_remotes()} if k == 0 else store
            res = jsonschema.RefResolver.from_schema(case["schema"], id_of=cls.ID_OF, store=store)
            got = outcome_of(lambda: cls(case["schema"], resolver=res).is_valid(t["data"]))
        except Exception:
            continue
        if got[0] != "ok":
            continue
        try:
            rec = calibrate.record(10 ** 8 + k, d, case["schema"], t["data"], got[1])
        except Unencodable:
            continue
        recs.append(rec)
        real[rec["id"]] = {"draft": d, "schema": case["schema"], "instance": t["data"], "observed_valid": got[1],
                           "suite_case": "%s: %s / %s" % (rel, case["description"], t["description"])}
        suite_n += 1
    ck.notes["official_suite_executions_validated"] = suite_n
    lib = calibrate.write_lib(wd + "/lib.json", calibrate.suite_remotes())
    bad, states = tlc.validate_trace("trace/Trace_Verdict.tla", recs, "c01", shards=16, env={"LIB_FILE": lib})
    tlc.cleanup("c01lib")
    ck.states += states
    ck.transitions += states
    ck.validated += len(recs)
    for b in bad:
        for clause in b["clauses"]:
            if clause.startswith("~"):
                ck.skipped += 1
                if clause == "~badregex":
                    raise tlc.MachineryFailure("harness regex parse disagrees with Regex!Render: %r" % real[b["id"]])
                continue
            ck.violation(clause, dict(real[b["id"]], source="Trace_Verdict", spec_valid=not real[b["id"]]["observed_valid"]))
    ck.sample({"random_case": next(iter(real.values()))} if real else "none")
    return ck.finish()
