"""C02 - $ref is transparent: a reference behaves as the schema it designates."""
import copy
import random
from urllib.parse import quote

from harness import tlc, calibrate, errrec, tracing
from harness.common import Check, draft_classes, pmap, import_lib
from harness.encode import enc, dec, enc_str, dec_str, Unencodable
from harness.gen_schema import Gen
from harness.c10 import schema_positions

DRAFTS = (3, 4, 6, 7)
NAMES = ["a", "", "a/b", "a~b", "~01", "~1", "%", "%25", "a b", "é", "0", "01", "#", "?", '"', "\\", "~0", "/", "~",
         "\U0001F600", "x.y", "$ref", "definitions", "a%2Fb", "xs:int", "a:b/c"]
ARRS = ["local", "rootid", "rootidhash", "absref", "relid", "storeabs", "storerel", "storeownid", "chain", "arrayelem",
        "nestedabs", "nestedrel", "mixed", "shadow", "pctsep", "claimed", "twobases", "mixedchain"]
_CLS = None
_TR = None


def _setup():
    global _CLS, _TR
    if _CLS is None:
        _CLS = draft_classes()
        _TR = tracing.make_tracing_resolver_class()
    return _CLS


def frag_of(*tokens):
    ptr = "".join("/" + t.replace("~", "~0").replace("/", "~1") for t in tokens)
    return "#" + quote(ptr, safe="/~!$&'()*+,;=:@?-._")


def get_at(S, path):
    for p in path:
        S = S[p]
    return S


def set_at(S, path, new):
    if not path:
        return new
    S = copy.copy(S)
    S[path[0]] = set_at(S[path[0]], path[1:], new)
    return S


def build(d, T, pos, name, arr):
    """(S, store) -- mirror of MC_Ref!Scenario for random schemas; the result is judged by TLC, not trusted"""
    idk = "id" if d <= 4 else "$id"
    sub = get_at(T, pos)
    dref = frag_of("definitions", name)
    ROOT, DIRROOT = "http://x.invalid/root.json", "http://x.invalid/dir/root.json"

    def tref(r):
        return set_at(T, pos, {"$ref": r})

    def first(S, k, v):
        out = {k: v}
        out.update(S)
        return out
    if arr == "local":
        return dict(tref(dref), definitions={name: sub}), {}
    if arr == "rootid":
        return first(dict(tref(dref), definitions={name: sub}), idk, ROOT), {}
    if arr == "rootidhash":
        return first(dict(tref(dref), definitions={name: sub}), idk, ROOT + "#"), {}
    if arr == "absref":
        return first(dict(tref(ROOT + dref), definitions={name: sub}), idk, ROOT), {}
    if arr == "relid":
        return first(dict(tref(dref), definitions={name: sub}), idk, "root.json"), {}
    if arr == "storeabs":
        return tref("http://x.invalid/defs.json" + dref), {"http://x.invalid/defs.json": {"definitions": {name: sub}}}
    if arr == "storerel":
        return first(tref("defs.json" + dref), idk, DIRROOT), {"http://x.invalid/dir/defs.json": {"definitions": {name: sub}}}
    if arr == "storeownid":
        return tref("http://x.invalid/defs.json" + dref), {"http://x.invalid/defs.json": {idk: "http://x.invalid/defs.json", "definitions": {name: sub}}}
    if arr == "chain":
        return dict(tref(frag_of("definitions", "chain")), definitions={name: sub, "chain": {"$ref": dref}}), {}
    if arr == "arrayelem":
        return dict(tref("#/x-defs/1"), **{"x-defs": [{}, sub]}), {}
    wrap = "extends" if d == 3 else "allOf"
    if arr == "nestedabs":
        return {idk: ROOT, wrap: [first(tref(ROOT + dref), idk, "http://x.invalid/n/b.json")], "definitions": {name: sub}}, {}
    if arr == "nestedrel":
        return ({idk: ROOT, wrap: [first(tref("defs.json" + dref), idk, "http://x.invalid/n/b.json")]},
                {"http://x.invalid/n/defs.json": {"definitions": {name: sub}}})
    if arr in ("mixed", "mixedchain"):
        other = "http://x.invalid/other.json"
        guard = {"disallow": [{"$ref": other + frag_of("definitions", "tt")}]} if d == 3 else {"not": {"$ref": other + frag_of("definitions", "tt")}}
        S = dict(guard)
        S.update(tref(dref))
        S["definitions"] = {name: sub}
        defs = {"tt": {"type": "null"}}
        if arr == "mixedchain":     # the guard's target is itself only a reference
            defs = {"tt": {"$ref": frag_of("definitions", "uu")}, "uu": {"type": "null"}}
        defs.setdefault(name, {})
        return S, {other: {"definitions": defs}}
    if arr == "shadow":
        never = {"disallow": "any"} if d == 3 else {"not": {}}
        return first(dict(tref(dref), definitions={name: sub}), idk, ROOT), {ROOT: {"definitions": {name: never}}}
    if arr == "pctsep":
        return dict(tref("#" + dref[1:].replace("/", "%2F")), definitions={name: sub}), {}
    if arr == "claimed":
        never = {"disallow": "any"} if d == 3 else {"not": {}}
        return (tref("http://x.invalid/defs.json" + dref),
                {"http://x.invalid/defs.json": {"definitions": {name: sub}},
                 "http://x.invalid/other.json": {idk: "http://x.invalid/defs.json", "definitions": {name: never}}})
    if arr == "urn":
        return first(dict(tref(dref), definitions={name: sub}), idk, "urn:example:root"), {}
    if arr == "twobases":
        # ONE {"$ref": ...} object (the same Python object) below two nested ids: a different document under each base
        r = {"$ref": "defs.json" + dref}
        second = first(set_at(T, pos, r), idk, "http://x.invalid/n/b.json")
        return ({idk: ROOT, wrap: [{idk: "http://x.invalid/a/b.json", wrap: [r]}, second]},
                {"http://x.invalid/a/defs.json": {"definitions": {name: {}}},
                 "http://x.invalid/n/defs.json": {"definitions": {name: sub}}})
    raise KeyError(arr)


def share_refs(S, seen):
    """the same schema with equal {"$ref": text} objects being ONE Python object (a programmatically built schema)"""
    if isinstance(S, dict):
        if list(S) == ["$ref"] and isinstance(S["$ref"], str):
            return seen.setdefault(S["$ref"], S)
        return {k: share_refs(v, seen) for k, v in S.items()}
    if isinstance(S, list):
        return [share_refs(v, seen) for v in S]
    return S


def loc_canon(o):
    return (tuple(o["kw"]) if not o.get("none") else (), errrec._p(o["ip"]), tuple(sorted(loc_canon(c) for c in o["ctx"])))


def loc_canon_spec(e):
    return (tuple(e["kw"]), errrec._p(e["ip"]), tuple(sorted(loc_canon_spec(c) for c in e["ctx"])))


def run_real(d, S, store, instances, via_handler=False, foreign_base=False):
    """errors of each instance on ONE validator with a tracing resolver; (list of (obs list | exception name), events).
    via_handler: the other documents are not supplied in the store but obtained through a retrieval handler"""
    cls = _setup()[d]
    js = import_lib()
    if foreign_base:
        # a resolver supplied by the caller, constructed with a base URI of the caller's choosing (where the document was
        # found, say): the document's own id still is the base of everything inside it
        res = _TR("http://elsewhere.invalid/tree/doc.json", S, store=copy.deepcopy(store))
    elif via_handler and store:
        # the first retrieval of every document fails (the network hiccups once); a first pass over the instances may
        # therefore end in RefResolutionError -- afterwards every reference designates its target as if nothing had been
        h = tracing.CountingHandler(store)
        h.fail_once.update(store)
        res = _TR.from_schema(S, id_of=cls.ID_OF, handlers={"http": h})
    else:
        res = _TR.from_schema(S, id_of=cls.ID_OF, store=copy.deepcopy(store))
    v = cls(S, resolver=res)
    if via_handler and store and not foreign_base:
        for I in instances:
            try:
                list(v.iter_errors(I))
            except js.exceptions.RefResolutionError:
                pass
            except Exception:  # noqa -- judged in the real pass below
                pass
        del res.events[:]
    out = []
    for I in instances:
        try:
            out.append([errrec.obs_err(e) for e in v.iter_errors(I)])
        except js.exceptions.RefResolutionError as e:
            out.append("RefResolutionError: " + str(e)[:80])
        except Exception as e:
            out.append(type(e).__name__ + ": " + str(e)[:80])
    return out, res.events


_INST = None


def replay_one(task):
    d, ex = task
    S, inl = dec(ex["S"]), dec(ex["inl"])
    if ex.get("arr") == "twobases":
        S = share_refs(S, {})
    store = {dec_str(m["u"]): dec(m["doc"]) for m in ex["more"]}
    safe = ex.get("arr") in ("local", "storeabs", "storerel", "storeownid", "chain", "arrayelem", "nestedrel", "mixed", "mixedchain", "pctsep", "claimed", "otherid", "twobases")
    got, events = run_real(d, S, store, _INST, via_handler=(len(repr(S)) % 2 == 0), foreign_base=(safe and len(repr(S)) % 3 == 0))
    got_inl, _ = run_real(d, inl, {}, _INST)
    probs = []
    for i, (g, gi, want) in enumerate(zip(got, got_inl, ex["e"])):
        if isinstance(g, str):
            probs.append(("unresolved" if g.startswith("RefResolutionError") else "raises", i, g))
            continue
        if sorted(map(loc_canon, g)) != sorted(map(loc_canon_spec, want)):
            probs.append(("spec_located_errors", i, None))
        if isinstance(gi, str) or sorted(map(loc_canon, g)) != sorted(map(loc_canon, gi)):
            probs.append(("not_transparent", i, None))
    trip = sorted({(e["scope"], e["ref"], e["url"]) for e in events if e["ev"] == "resolve" and e["ok"] and e["scope"] is not None})
    return probs, trip


def record_one(task):
    i, d, seed = task
    _setup()
    rng = random.Random(seed)
    g = Gen(rng, d, maxdepth=3)
    T = g.schema()
    cls = _CLS[d]
    js = import_lib()
    if not isinstance(T, dict):
        return None
    try:
        cls.check_schema(T)
    except Exception:
        return None
    pos = [p for p in schema_positions(T) if not (d == 3 and isinstance(get_at(T, p), dict) and "required" in get_at(T, p))]
    if not pos:
        return None
    p = rng.choice(pos)
    name = rng.choice(NAMES)
    arr = rng.choice(ARRS)
    if arr in ("mixed", "mixedchain") and (("disallow" if d == 3 else "not") in T or not p):
        arr = "local"        # (at the root the guard would be a sibling of $ref, which is ignored)
    S, store = build(d, T, list(p), name, arr)
    if arr in ("mixed", "mixedchain"):      # the inlining of the guarded schema carries the guard too
        guard = {"disallow": [{"type": "null"}]} if d == 3 else {"not": {"type": "null"}}
        T = dict(guard, **T)
    base = S.get("id" if d <= 4 else "$id", "")
    out = []
    for j in range(3):
        I = g.instance(T)
        try:
            def resolver_for(schema, S=S, store=store):
                if schema is S:
                    return _TR.from_schema(S, id_of=cls.ID_OF, store=copy.deepcopy(store))
                return None
            try:
                rec, plain = errrec.make_record(i * 3 + j, d, cls, S, I, base=base, resolver_for=resolver_for)
            except js.exceptions.RefResolutionError as e:
                rec, plain = errrec.make_record(i * 3 + j, d, cls, {}, I, base=base)
                rec["S"] = enc(S)
                rec["raised"] = "ref"
                plain = "RefResolutionError: " + str(e)[:80]
            rec["more"] = [{"u": enc_str(u), "doc": enc(doc)} for u, doc in store.items()]
            from harness import regex
            rec["pats"] = regex.pats_table([S, T] + list(store.values()))
            inl_errs = [errrec.obs_err(e) for e in cls(T).iter_errors(I)]
            rec["hasinl"] = True
            rec["inl"] = {"S": enc(T), "errs": inl_errs}
            out.append((rec, {"draft": d, "schema_with_references": S, "store": store, "inlined_schema": T, "instance": I,
                              "arrangement": arr, "definition_name": name, "position": list(p), "observed": plain}))
        except Unencodable:
            pass
        except Exception:
            pass
    return out


def main(args):
    global _INST
    ck = Check("C02", args.tier, args.seed)
    quick = args.tier == "quick"
    _setup()
    ck.rule = ("scenarios = final states of the Extract machine spec/mc/MC_Ref: 6 reference-free base schemas per draft x every "
               "subschema position x %d definition names (incl. '', a/b, a~b, ~01, ~1, %%, %%25, 'a b', e-acute, 0, 01, #, ?, "
               "quote, backslash) x 22 base-URI/store arrangements (local; absolute root id with/without '#'; absolute "
               "reference string; relative root id; store document reached by absolute / relative reference, with own id; "
               "two-reference chain; array element; nested id with absolute / relative reference; a cross-document reference under not/disallow before a local one, its target a plain schema or itself a reference; the other drafts' id keyword on the way (must be inert); recursion through '#' compared with a 4-fold unfolding; urn base; a store document under the root's id; percent-encoded separators; a document claiming another's URL; the empty reference with siblings; ONE shared {\"$ref\"} object under two nested bases designating two documents) x 13 "
               "instances; TLC checks Transparent and SameAsOriginal on each and exports the expected located errors, "
               "replayed on real validators (other documents in the store or, alternately, behind a retrieval handler; tracing resolver) and compared with the real errors of the inlined "
               "schema. Random: extraction at random positions of random deep schemas, judged by TLC (Trace_Errors C02 "
               "clauses); every recorded resolve(scope, ref) -> url event is checked against RFC 3986 (Trace_Uri). "
               "Non-trivial: the instance has >= 1 error; distinct by (draft, scenario, instance)." % (8 if quick else 19))
    wd = tlc.workdir("c02lib")
    lib = calibrate.write_lib(wd + "/lib.json")
    jobs = [dict(module="mc/MC_Ref.tla", cfg="mc/MC_Ref_%s_d%d.cfg" % (args.tier, d), workers=4, timeout=7000, heap="5g",
                 env={"LIB_FILE": lib}) for d in DRAFTS]
    results = tlc.run_many(jobs, parallel=4)
    tasks = []
    for job, r in zip(jobs, results):
        d = int(job["cfg"].split("_d")[1][0])
        if r.violation:
            raise tlc.MachineryFailure("the specification itself is not transparent: %s %s" % (job["cfg"], r.violation))
        ck.add_tlc(r)
        for ex in r.exports:
            if "instances" in ex:
                _INST = [dec(x) for x in ex["instances"]]
                continue
            tasks.append((d, ex))
    outs = pmap(replay_one, tasks, chunk=16)
    triples = set()
    for (d, ex), (probs, trip) in zip(tasks, outs):
        ck.replayed += 1
        triples.update(trip)
        S = dec(ex["S"])
        for i, want in enumerate(ex["e"]):
            ck.count((d, repr(S), i), bool(want))
        base_case = {"draft": d, "schema_with_references": S, "store": {dec_str(m["u"]): dec(m["doc"]) for m in ex["more"]},
                     "arrangement": ex["arr"], "definition_name": dec_str(ex["name"]), "inlined_schema": dec(ex["inl"]),
                     "source": "MC_Ref"}
        if len(ck.samples) < 3 and ex["arr"] in ("nestedrel", "chain", "storerel") and len(dec_str(ex["name"])) > 1:
            ck.sample(dict(base_case, instance=_INST[5], spec_errors=len(ex["e"][5])))
        for kind, i, info in probs:
            ck.violation(kind, dict(base_case, instance=_INST[i], observed=info))
    ck.exhaustive = True

    n = 1500 if quick else 40000
    outs = pmap(record_one, [(i, DRAFTS[i % 4], args.seed * 1000003 + i) for i in range(n)], chunk=16)
    recs, real = [], {}
    for o in outs:
        for rec, info in (o or []):
            recs.append(rec)
            real[rec["id"]] = info
            ck.count((rec["d"], repr(info["schema_with_references"]), repr(info["instance"])), bool(rec["errs"]))
    bad, states = tlc.validate_trace("trace/Trace_Errors.tla", recs, "c02", shards=16, env={"LIB_FILE": lib})
    ck.states += states
    ck.transitions += states
    ck.validated += len(recs)
    for b in bad:
        for clause in b["clauses"]:
            if clause in ("~c02:badinline", "~c02:spec_not_transparent", "~badregex"):
                raise tlc.MachineryFailure("%s for %r" % (clause, real[b["id"]]))
            if clause.startswith("~"):
                ck.skipped += 1
            elif clause.startswith("c02:") or clause == "c05:spec_bag":
                ck.violation(clause.replace("c05:spec_bag", "spec_located_errors").replace("c02:", ""),
                             dict(real[b["id"]], source="Trace_Errors", clause=clause))
    # resolver events: urljoin conformance with RFC 3986
    urecs = [{"id": k, "scope": enc_str(s), "ref": enc_str(r), "url": enc_str(u)} for k, (s, r, u) in enumerate(sorted(triples))]
    bad, states = tlc.validate_trace("trace/Trace_Uri.tla", urecs, "c02uri", shards=4)
    tlc.cleanup("c02lib")
    ck.states += states
    ck.transitions += states
    ck.validated += len(urecs)
    tl = sorted(triples)
    for b in bad:
        for clause in b["clauses"]:
            if clause.startswith("~"):
                ck.skipped += 1
            else:
                s, r, u = tl[b["id"]]
                ck.violation(clause, {"scope": s, "ref": r, "url_from_resolver": u, "source": "Trace_Uri"})
    ck.notes["distinct_resolve_events_checked"] = len(urecs)
    return ck.finish()
