"""C03 - validation is total: accepted schema + JSON instance never crashes or hangs."""
import random
import signal
import sys

from harness import tlc, calibrate, regex, c11
from harness.common import Check, draft_classes, pmap
from harness.encode import enc, dec, Unencodable
from harness.gen_schema import Gen

DRAFTS = (3, 4, 6, 7)
_CLS = None
_INST = None
_JS = None


def _setup():
    """the code under test, with every network primitive replaced by a stub that raises"""
    global _CLS, _JS
    if _CLS is None:
        sys.modules["requests"] = None          # `import requests` raises ImportError inside resolve_remote
        _CLS = draft_classes()
        import jsonschema
        import jsonschema.validators as V
        from urllib.error import URLError

        def no_network(*a, **k):
            raise URLError("network access is stubbed out by the verification harness")
        V.urlopen = no_network
        _JS = jsonschema
    return _CLS


class _Timeout(Exception):
    pass


def _alarm(sig, frm):
    raise _Timeout()


def classify(fn):
    exc = _JS.exceptions
    try:
        r = fn()
        return r
    except exc.ValidationError:
        return "invalid"
    except exc.RefResolutionError:
        return "ref"
    except exc.UnknownType:
        return "type"
    except _Timeout:
        return "crash:Timeout"
    except BaseException as e:  # noqa
        if isinstance(e, (KeyboardInterrupt, SystemExit)):
            raise
        return "crash:" + type(e).__name__


def observe(d, S, I, vals=None):
    """outcome class of every entry point x checker configuration.  `vals`: validator objects to reuse (one per
    checker configuration) -- a validator may be used for any number of instances"""
    cls = _setup()[d]
    fcs = [None, _JS.FormatChecker(), getattr(_JS, "draft%d_format_checker" % d)]
    obs = []
    old = signal.signal(signal.SIGALRM, _alarm)
    signal.alarm(20)
    try:
        for n, fc in enumerate(fcs):
            if vals is not None and n in vals:
                v = vals[n]
            else:
                v = classify(lambda: cls(S, format_checker=fc))
                if vals is not None:
                    vals[n] = v
            if isinstance(v, str):
                obs += [v] * 4
                continue
            obs.append(classify(lambda: "valid" if v.is_valid(I) else "invalid"))
            obs.append(classify(lambda: "invalid" if list(v.iter_errors(I)) else "valid"))
            obs.append(classify(lambda: (v.validate(I), "valid")[1]))
            obs.append(classify(lambda: (_JS.validate(I, S, cls=cls, format_checker=fc), "valid")[1]))
    finally:
        signal.alarm(0)
        signal.signal(signal.SIGALRM, old)
    return obs


def accepted(d, S):
    return c11.classify_check_schema(d, S)[0] == "ok"


def replay_one(task):
    d, S, outs = task
    _setup()
    c11._CLS = _CLS
    if not accepted(d, S):
        return None
    vals = {}
    return [observe(d, S, I, vals) for I in _INST]


def record_one(task):
    i, d, seed = task
    _setup()
    c11._CLS = _CLS
    rng = random.Random(seed)
    g = Gen(rng, d, maxdepth=3)
    S = g.schema()
    if rng.random() < 0.7:
        S = c11.mutate_shapes(rng, S, rng.randrange(1, 3))
    if rng.random() < 0.15 and isinstance(S, dict):
        S = dict(S)
        S["definitions"] = {"a": g.schema(1), "b": {"$ref": "#/definitions/a"}}
        tgt = rng.choice(["#/definitions/a", "#/definitions/b", "#/definitions/zz", "#", "http://unretrievable.invalid/x.json#/a"])
        if rng.random() < 0.5:
            S = {"properties": {"a": {"$ref": tgt}}, "definitions": S["definitions"]}
        else:
            S["items"] = {"$ref": tgt}
    if not accepted(d, S):
        return None
    out = []
    vals = {}
    for j in range(3):
        I = rng.choice([g.instance(S), g.json_value(2), rng.choice([10 ** 400, -10 ** 400, 1e308, 5e-324, 2 ** 64])])
        try:
            rec = {"id": i * 3 + j, "kind": "outcome", "d": d, "S": enc(S), "I": enc(I), "base": [], "uselib": False,
                   "pats": regex.pats_table([S]), "obs": observe(d, S, I, vals)}
            out.append((rec, S, I))
        except Unencodable:
            pass
    return out


NAMES = ["is_valid", "iter_errors", "validate", "jsonschema.validate"]
CFG = ["no checker", "FormatChecker()", "draft checker"]


def crashes(obs):
    return sorted({"%s[%s]=%s" % (NAMES[k % 4], CFG[k // 4], o) for k, o in enumerate(obs) if o.startswith("crash")})


def main(args):
    global _INST
    ck = Check("C03", args.tier, args.seed)
    quick = args.tier == "quick"
    ck.rule = ("schemas = the candidates of spec/mc/MC_Shape that check_schema accepts (every keyword x JSON shape pool, one "
               "level down, reference cases: resolvable / dangling / unretrievable / recursive / ill-founded / target not a "
               "schema; Draft 3 unknown type names; all ordered pairs of 16 individually compilable patterns outside the modelled regex dialect in one patternProperties + additionalProperties) x 22 instances incl. huge numbers x 4 entry points x 3 checker "
               "configurations, each outcome class required to be in the set the specification allows (valid / invalid / "
               "RefResolutionError where a reference may fail / UnknownType where a Draft 3 type name is unknown); plus "
               "random deep accepted schemas with shape mutations and reference insertions judged by TLC "
               "(Trace_Outcome). Network primitives are stubs that raise. Non-trivial: schema object with >= 1 keyword; "
               "distinct by (draft, schema, instance).")
    wd = tlc.workdir("c03lib")
    lib = calibrate.write_lib(wd + "/lib.json")
    jobs = [dict(module="mc/MC_Shape.tla", cfg="mc/MC_Shape_%s_d%d.cfg" % (args.tier, d), workers=4, timeout=7000,
                 heap="5g", env={"LIB_FILE": lib}) for d in DRAFTS]
    results = tlc.run_many(jobs, parallel=4)
    tasks = []
    for job, r in zip(jobs, results):
        d = int(job["cfg"].split("_d")[1][0])
        ck.add_tlc(r)
        for ex in r.exports:
            if "instances" in ex:
                _INST = [dec(x) for x in ex["instances"]]
                continue
            if ex["acc"]:
                tasks.append((d, dec(ex["S"]), ex["out"]))
    outs = pmap(replay_one, tasks, chunk=16)
    for (d, S, exp), obs_all in zip(tasks, outs):
        if obs_all is None:
            ck.skipped += 1          # spec says accepted, code rejects: C11's business
            continue
        ck.replayed += 1
        for i, (x, obs) in enumerate(zip(exp, obs_all)):
            ck.count((d, repr(S), i), isinstance(S, dict) and bool(S))
            allowed = set(x["cls"])
            hard = set(x["ood"])
            badobs = [o for o in obs if o not in allowed]
            case = {"draft": d, "schema": S, "instance": repr(_INST[i]), "allowed_by_spec": sorted(allowed),
                    "spec_out_of_domain": sorted(hard), "observed": obs, "crashes": crashes(obs), "source": "MC_Shape"}
            if "loop" in hard:
                if crashes(obs):
                    ck.violation("outcome:illfounded_reference_cycle", case)
                continue
            if "notschema" in hard:
                if crashes(obs):
                    ck.violation("outcome:reference_target_not_a_schema", case)
                continue
            if hard:
                ck.skipped += 1
                continue
            if badobs:
                ck.violation("outcome", case)
            elif len(ck.samples) < 3 and ("ref" in allowed or "type" in allowed):
                ck.sample(case)
    ck.exhaustive = True

    n = 1500 if quick else 50000
    outs = pmap(record_one, [(i, DRAFTS[i % 4], args.seed * 1000003 + i) for i in range(n)], chunk=8)
    recs, real = [], {}
    for o in outs:
        for rec, S, I in (o or []):
            recs.append(rec)
            real[rec["id"]] = {"draft": rec["d"], "schema": S, "instance": repr(I), "observed": rec["obs"],
                               "crashes": crashes(rec["obs"])}
            ck.count((rec["d"], repr(S), repr(I)), True)
    # regular expressions outside the specification's modelled dialect (the verdict is not claimed: "regex" is a soft
    # out-of-domain marker) that Python's engine compiles -- each ON ITS OWN, which is all the property presupposes: no
    # crash, in whatever combination they occur in one schema
    import re
    exotic = ["(?P<n>a)", "(?P<n>b)", "(?i)b", "(?s).", "(?x) a b", "\\d+", "(a)\\1", "(?=a)b", "(?<=a)b", "(?#c)a", "\\Z", "[\\]]",
              "a{2,3}", "(?:a|b)+?", "(?m)^b$", "(?a)\\w"]
    for pat in exotic:
        re.compile(pat)
    _setup()
    rid = 10 ** 7
    inst = {"a": 1, "b": "x", "AB": None, "aa": [], "": 0}
    for d in DRAFTS:
        for p1 in exotic:
            for p2 in exotic:
                if p1 == p2:
                    continue
                for S in ({"patternProperties": {p1: {}, p2: {"type": "integer"}}, "additionalProperties": False},
                          {"patternProperties": {p1: {"type": "string"}, p2: {}}, "additionalProperties": {"type": "null"}}):
                    if (rid % 2 and not quick) or not accepted(d, S):
                        rid += 1
                        continue
                    rid += 1
                    rec = {"id": rid, "kind": "outcome", "d": d, "S": enc(S), "I": enc(inst), "base": [], "uselib": False,
                           "pats": regex.pats_table([S]), "obs": observe(d, S, inst, {})}
                    recs.append(rec)
                    real[rid] = {"draft": d, "schema": S, "instance": repr(inst), "observed": rec["obs"], "crashes": crashes(rec["obs"])}
                    ck.count((d, repr(S), "exotic"), True)
    # every format name this installation registers x strings chosen to upset parsers (with a format checker the keyword
    # may only ever report an error; the verdict itself is C13's)
    patho = ["9999999999:00:00", "99999999999999999999:1:1", "1:2", "00:00:60", "a{99999999999}", "(" * 600, "\x00", "::1\x00", "1.2.3.4\n",
             "9" * 5000 + "-01-01", "0000-00-00", "#" * 40, "http://[", "a@b@c", "\u0661\u0662:\u0663\u0660:\u0660\u0660", "%"]
    for d in DRAFTS:
        names = sorted(set(_JS.FormatChecker.checkers) | set(getattr(_JS, "draft%d_format_checker" % d).checkers))
        for name in names:
            S = {"format": name}
            if not accepted(d, S):
                continue
            vals = {}
            for inst in patho:
                rid += 1
                try:
                    rec = {"id": rid, "kind": "outcome", "d": d, "S": enc(S), "I": enc(inst), "base": [], "uselib": False,
                           "pats": [], "obs": observe(d, S, inst, vals)}
                except Unencodable:
                    continue
                recs.append(rec)
                real[rid] = {"draft": d, "schema": S, "instance": repr(inst)[:80], "observed": rec["obs"], "crashes": crashes(rec["obs"])}
                ck.count((d, name, repr(inst)[:40], "format"), True)
    bad, states = tlc.validate_trace("trace/Trace_Outcome.tla", recs, "c03", shards=16, env={"LIB_FILE": lib})
    tlc.cleanup("c03lib")
    ck.states += states
    ck.transitions += states
    ck.validated += len(recs)
    for b in bad:
        case = dict(real[b["id"]], source="Trace_Outcome")
        for clause in b["clauses"]:
            if clause == "~c03:illfounded":
                if case["crashes"]:
                    ck.violation("outcome:illfounded_reference_cycle", case)
            elif clause == "~c03:target_not_schema":
                if case["crashes"]:
                    ck.violation("outcome:reference_target_not_a_schema", case)
            elif clause.startswith("~"):
                ck.skipped += 1
            elif clause.startswith("c03:"):
                ck.violation("outcome", case)
    return ck.finish()
