"""C04 - all entry points agree: is_valid, iter_errors, validate(), jsonschema.validate."""
import json
import random
import warnings

from harness import tlc, c11, errrec
from harness.common import Check, draft_classes, pmap
from harness.encode import Unencodable, enc
from harness.gen_schema import Gen
from harness.calibrate import META_IDS

DRAFTS = (3, 4, 6, 7)
_CLS = None
_JS = None


def _setup():
    global _CLS, _JS
    if _CLS is None:
        _CLS = draft_classes()
        import jsonschema
        _JS = jsonschema
        c11._CLS = _CLS
    return _CLS


class Spy(object):
    """instance stand-ins that log every access (module validate must not touch the instance of an invalid schema)"""
    def __init__(self):
        self.n = 0

    def wrap(self, x):
        spy = self

        class D(dict):
            def __getitem__(s, k):
                spy.n += 1
                return dict.__getitem__(s, k)

            def __iter__(s):
                spy.n += 1
                return dict.__iter__(s)

            def __len__(s):
                spy.n += 1
                return dict.__len__(s)

            def __contains__(s, k):
                spy.n += 1
                return dict.__contains__(s, k)

            def get(s, *a):
                spy.n += 1
                return dict.get(s, *a)

            def items(s):
                spy.n += 1
                return dict.items(s)

            def keys(s):
                spy.n += 1
                return dict.keys(s)

            def values(s):
                spy.n += 1
                return dict.values(s)

        class L(list):
            def __getitem__(s, k):
                spy.n += 1
                return list.__getitem__(s, k)

            def __iter__(s):
                spy.n += 1
                return list.__iter__(s)

            def __len__(s):
                spy.n += 1
                return list.__len__(s)

        if isinstance(x, dict):
            return D(x)
        if isinstance(x, list):
            return L(x)
        return x


def raised(fn):
    """what fn() raised, as an abstract record"""
    exc = _JS.exceptions
    try:
        fn()
        return {"k": "none", "e": _null_err()}
    except exc.SchemaError as e:
        return {"k": "schema", "e": errrec.obs_err(e)}
    except exc.ValidationError as e:
        return {"k": "validation", "e": errrec.obs_err(e)}
    except BaseException as e:  # noqa
        if isinstance(e, (KeyboardInterrupt, SystemExit)):
            raise
        return {"k": "other", "e": _null_err(), "what": "%s: %s" % (type(e).__name__, str(e)[:100])}


def _vals(e):
    """the values an error carries (instance, keyword value, schema), tagged; a value never filled in is 'unset'"""
    out = {}
    for f, x in (("inst", e.instance), ("kwval", e.validator_value), ("sch", e.schema)):
        if type(x).__name__ == "Unset":
            out[f] = {"t": "unset"}
        else:
            try:
                # the schema of a metaschema violation is a (large) piece of the metaschema: its canonical text is hashed
                out[f] = enc(x) if f != "sch" else {"t": "hashed", "h": errrec.msg_hash(json.dumps(x, sort_keys=True, default=repr))}
            except Unencodable:
                out[f] = {"t": "unencodable", "repr": [ord(c) for c in repr(x)[:60]]}
    return out


def raised_with_values(fn):
    exc = _JS.exceptions
    try:
        fn()
    except exc.SchemaError as e:
        return _vals(e)
    except BaseException:  # noqa
        pass
    return {"inst": {"t": "none"}, "kwval": {"t": "none"}, "sch": {"t": "none"}}


def twist(x, mode):
    """an instance of the same shape whose numbers all changed kind: mode "integral" -> integer-valued floats (1 -> 1.0,
    1.5 -> 1.0), mode "fractional" -> fractional floats (1 -> 1.5, 1.0 -> 1.5)"""
    if isinstance(x, bool) or x is None or isinstance(x, str):
        return x
    if isinstance(x, (int, float)):
        if abs(x) >= 1e15:
            return x
        return float(int(x)) if mode == "integral" else int(x) + 0.5
    if isinstance(x, list):
        return [twist(y, mode) for y in x]
    return {k: twist(y, mode) for k, y in x.items()}


def _null_err():
    return {"none": True, "kw": [], "ip": [], "sp": [], "msg": 0, "ctx": []}


def record_one(task):
    i, d, seed = task
    _setup()
    rng = random.Random(seed)
    g = Gen(rng, d, maxdepth=3)
    S = g.schema()
    mode = rng.random()
    if mode < 0.35 and isinstance(S, dict):
        S = c11.mutate_shapes(rng, S, rng.randrange(1, 3))
    if isinstance(S, dict) and rng.random() < 0.12:      # the id keyword itself may be malformed
        S = dict(S)
        S["id" if d <= 4 else "$id"] = rng.choice([12, True, 1.5, ["x"], {"a": 1}, None, 0, "", "http://x.invalid/s.json", "urn:x"])
    via_schema = isinstance(S, dict) and rng.random() < 0.5
    if via_schema:
        S = dict(S)
        S["$schema"] = META_IDS[d] + rng.choice(["#", ""])
    fc = _JS.FormatChecker() if rng.random() < 0.5 else None
    cls = _CLS[d]
    I = g.instance(S if isinstance(S, dict) else {})
    if isinstance(S, dict) and rng.random() < 0.08:
        # a `pattern` no regular-expression engine compiles: check_schema does not look at it (the metaschema describes
        # it through `format` only), and an instance that is no string never reaches it
        S = dict(S)
        S["pattern"] = rng.choice(["(", "[a", "a{2,1}", "(?P<n>a)(?P<n>b)", "*"])
        if isinstance(I, str):
            I = [I]
    reuse = rng.random() < 0.6
    first_kind = rng.choice(["integral", "fractional"])
    if reuse and rng.random() < 0.6:
        # numbers of the other kind at the same places (the validator has met `first_kind` there, see below)
        I = twist(I, "fractional" if first_kind == "integral" else "integral")
    kw = {} if fc is None else {"format_checker": fc}

    def module_validate(inst):
        with warnings.catch_warnings():
            warnings.simplefilter("ignore")
            if via_schema:
                return _JS.validate(inst, S, **kw)
            return _JS.validate(inst, S, cls=cls, **kw)
    ok = c11.classify_check_schema(d, S)[0]
    info = {"draft": d, "schema": S, "instance": I, "class_from_$schema": via_schema, "format_checker": fc is not None}
    try:
        if ok == "ok":
            v = cls(S, **kw)
            # the validator object is not fresh: it has been used on other instances of the same shape first (module
            # validate() below builds its own fresh one)
            if reuse:
                used_on = [twist(I, first_kind), g.instance(S if isinstance(S, dict) else {})]
                for I0 in used_on:
                    v.is_valid(I0)
                    list(v.iter_errors(I0))
                info["validator_used_first_on"] = used_on
            e1 = list(v.iter_errors(I))
            rec = {"id": i, "kind": "valid-schema", "iv1": v.is_valid(I), "iv2": v.is_valid(I),
                   "e1": [errrec.obs_err(e) for e in e1], "e2": [errrec.obs_err(e) for e in v.iter_errors(I)],
                   "vr": raised(lambda: v.validate(I)), "mr": raised(lambda: module_validate(I)),
                   "mr2": raised(lambda: module_validate(I))}
            b = _JS.exceptions.best_match(cls(S, **kw).iter_errors(I))
            rec["bm"] = {"k": "none", "e": _null_err()} if b is None else {"k": "err", "e": errrec.obs_err(b)}
            info["errors"] = [errrec.plain_err(e) for e in e1]
        else:
            spy = Spy()
            J = spy.wrap(I)
            cs = raised(lambda: cls.check_schema(S))
            first = next(cls(cls.META_SCHEMA).iter_errors(S), None)
            rec = {"id": i, "kind": "invalid-schema", "cs": cs, "csv": raised_with_values(lambda: cls.check_schema(S)),
                   "mfv": _vals(first) if first is not None else {"inst": {"t": "none"}, "kwval": {"t": "none"}, "sch": {"t": "none"}},
                   "mrv": raised_with_values(lambda: module_validate(J)),
                   "mf": {"k": "none", "e": _null_err()} if first is None else {"k": "err", "e": errrec.obs_err(first)},
                   "mr": raised(lambda: module_validate(J)), "mr2": raised(lambda: module_validate(J)), "spy": spy.n}
            info["check_schema"] = cs.get("what", cs["k"])
        for f in ("vr", "mr", "mr2", "cs"):
            if f in rec and rec[f]["k"] == "other":
                info[f] = rec[f].pop("what")
        return rec, info
    except Unencodable:
        return None
    except Exception as e:  # a crash of an entry point on an accepted schema is C03's business
        return None


def main(args):
    ck = Check("C04", args.tier, args.seed)
    quick = args.tier == "quick"
    ck.rule = ("spec side: TLC model-checks the entry-point protocol over all error sequences of <= %d errors with context "
               "trees of depth <= 2 (MC_C04: the documented best_match algorithm always returns a best candidate; validate's "
               "first error is stable under further yields). code side: for seeded random (schema, instance) pairs -- valid "
               "schemas and schemas with shape mutations (invalid under the metaschema), explicit class or class chosen "
               "from $schema, with/without FormatChecker -- is_valid (twice), iter_errors (twice), validate(), module "
               "validate() (twice), best_match and check_schema are recorded and TLC checks every relation of the "
               "property on each record; module validate() receives a spying instance when the schema is invalid. "
               "Non-trivial: the instance has >= 1 error or the schema is invalid; distinct by (draft, schema, instance, "
               "configuration)." % (2 if quick else 3))
    r = tlc.run("mc/MC_C04.tla", cfg="mc/MC_C04.cfg" if quick else "mc/MC_C04_thorough.cfg", workers=16, timeout=3000)
    if r.violation:
        raise tlc.MachineryFailure("protocol model violated: " + r.violation)
    ck.add_tlc(r)
    n = 6000 if quick else 150000
    outs = pmap(record_one, [(i, DRAFTS[i % 4], args.seed * 1000003 + i) for i in range(n)], chunk=32)
    recs, real = [], {}
    kinds = {"valid-schema": 0, "invalid-schema": 0}
    for o in outs:
        if o is None:
            ck.skipped += 1
            continue
        rec, info = o
        recs.append(rec)
        real[rec["id"]] = info
        kinds[rec["kind"]] += 1
        nontrivial = rec["kind"] == "invalid-schema" or bool(rec["e1"])
        ck.count((info["draft"], repr(info["schema"]), repr(info["instance"]), info["class_from_$schema"], info["format_checker"]), nontrivial)
        if len(ck.samples) < 3 and rec["kind"] == "valid-schema" and any(e["ctx"] for e in rec["e1"]):
            ck.sample(info)
    # reference scenarios with validator REUSE: after is_valid() on one instance, all entry points must still agree on the
    # next instance (module validate() builds a fresh validator, the others run on the used one)
    import copy
    from harness import scen
    _setup()
    rid = 10 ** 7
    for d in DRAFTS:
        cls = _CLS[d]
        for sc in scen.scenarios(d):
            if sc["remote"] or sc["name"] == "dangling":
                continue
            for I1 in sc["instances"]:
                for I2 in sc["instances"]:
                    rid += 1
                    v, res, h = scen.build(d, sc)
                    try:
                        first = copy.deepcopy(I1)
                        v.is_valid(first)
                        try:
                            v.validate(first)
                        except _JS.exceptions.ValidationError:
                            pass
                        # (when the two instances are the same one, it is the very same OBJECT that is presented again)
                        I = first if I1 is I2 else copy.deepcopy(I2)

                        def module_validate(inst, sc=sc, cls=cls):
                            r = _JS.RefResolver.from_schema(copy.deepcopy(sc["schema"]), id_of=cls.ID_OF, store=copy.deepcopy(sc["store"]))
                            return _JS.validate(inst, copy.deepcopy(sc["schema"]), cls=cls, resolver=r)
                        e1 = list(v.iter_errors(I))
                        rec = {"id": rid, "kind": "valid-schema", "iv1": v.is_valid(I), "iv2": v.is_valid(I),
                               "e1": [errrec.obs_err(e) for e in e1], "e2": [errrec.obs_err(e) for e in v.iter_errors(I)],
                               "vr": raised(lambda: v.validate(I)), "mr": raised(lambda: module_validate(I)),
                               "mr2": raised(lambda: module_validate(I))}
                        v2, _, _ = scen.build(d, sc)
                        b = _JS.exceptions.best_match(v2.iter_errors(I))
                        rec["bm"] = {"k": "none", "e": _null_err()} if b is None else {"k": "err", "e": errrec.obs_err(b)}
                        for f in ("vr", "mr", "mr2"):
                            rec[f].pop("what", None)
                    except Exception as e:  # noqa
                        ck.violation("raises_on_reused_validator", {"draft": d, "scenario": sc["name"], "first_instance": I1,
                                                                   "second_instance": I2, "exception": "%s: %s" % (type(e).__name__, str(e)[:100])})
                        continue
                    recs.append(rec)
                    real[rid] = {"draft": d, "scenario": sc["name"], "schema": sc["schema"], "history": "is_valid + validate on %r, then all entry points on the instance" % (I1,),
                                 "instance": I2, "class_from_$schema": False, "format_checker": False}
                    kinds["valid-schema"] += 1
                    ck.count((d, sc["name"], repr(I1), repr(I2)), True)
    # look-alike schemas: Python equality identifies true with 1 and 1 with 1.0; JSON does not.  Module validate() is first
    # given the well-formed twin, then the ill-formed one is recorded like any other invalid schema
    twins = [({"uniqueItems": True}, {"uniqueItems": 1}), ({"minLength": 1}, {"minLength": True}), ({"maxItems": 0}, {"maxItems": False}),
             ({"required": ["a"], "minProperties": 1}, {"required": ["a"], "minProperties": True}),
             ({"properties": {"a": {"minItems": 1}}}, {"properties": {"a": {"minItems": True}}})]
    for d in DRAFTS:
        cls = _CLS[d]
        for good, bad in twins:
            if c11.classify_check_schema(d, good)[0] != "ok" or c11.classify_check_schema(d, bad)[0] == "ok":
                continue
            rid += 1
            for inst in ([1, 1], "ab", {"a": [1]}):
                try:
                    _JS.validate(inst, good, cls=cls)
                except _JS.exceptions.ValidationError:
                    pass
            spy = Spy()
            J = spy.wrap({"a": [1]})
            cs = raised(lambda: cls.check_schema(bad))
            first = next(cls(cls.META_SCHEMA).iter_errors(bad), None)
            rec = {"id": rid, "kind": "invalid-schema", "cs": cs, "csv": raised_with_values(lambda: cls.check_schema(bad)),
                   "mfv": _vals(first), "mrv": raised_with_values(lambda: _JS.validate(J, bad, cls=cls)),
                   "mf": {"k": "err", "e": errrec.obs_err(first)},
                   "mr": raised(lambda: _JS.validate(J, bad, cls=cls)), "mr2": raised(lambda: _JS.validate(J, bad, cls=cls)), "spy": spy.n}
            for f in ("mr", "mr2", "cs"):
                rec[f].pop("what", None)
            recs.append(rec)
            real[rid] = {"draft": d, "schema": bad, "history": "module validate() on the look-alike %r first" % (good,), "instance": {"a": [1]},
                         "class_from_$schema": False, "format_checker": False}
            kinds["invalid-schema"] += 1
            ck.count((d, repr(bad), "after twin"), True)
    # one schema object, first checked (and found well-formed) under one class, then offered under a class for which
    # it is ill-formed: the schema check is that of the class asked, every time
    cross = [({"required": ["a"]}, 4, 3), ({"exclusiveMinimum": 1, "minimum": 0}, 7, 4), ({"type": "any"}, 3, 4),
             ({"items": True}, 6, 4), ({"dependencies": {"a": "b"}}, 3, 7)]
    for S, d_ok, d_bad in cross:
        if c11.classify_check_schema(d_ok, S)[0] != "ok" or c11.classify_check_schema(d_bad, S)[0] == "ok":
            continue
        rid += 1
        cls = _CLS[d_bad]
        for inst in ({}, 5, [1]):
            try:
                _JS.validate(inst, S, cls=_CLS[d_ok])
            except _JS.exceptions.ValidationError:
                pass
        spy = Spy()
        J = spy.wrap({"a": [1]})
        first = next(cls(cls.META_SCHEMA).iter_errors(S), None)
        rec = {"id": rid, "kind": "invalid-schema", "cs": raised(lambda: cls.check_schema(S)), "csv": raised_with_values(lambda: cls.check_schema(S)),
               "mfv": _vals(first), "mrv": raised_with_values(lambda: _JS.validate(J, S, cls=cls)),
               "mf": {"k": "err", "e": errrec.obs_err(first)},
               "mr": raised(lambda: _JS.validate(J, S, cls=cls)), "mr2": raised(lambda: _JS.validate(J, S, cls=cls)), "spy": spy.n}
        for f in ("mr", "mr2", "cs"):
            rec[f].pop("what", None)
        recs.append(rec)
        real[rid] = {"draft": d_bad, "schema": S, "history": "the same schema object was first validated against under Draft %d" % d_ok,
                     "instance": {"a": [1]}, "class_from_$schema": False, "format_checker": False}
        kinds["invalid-schema"] += 1
        ck.count((d_bad, repr(S), "after draft %d" % d_ok), True)
    # classes obtained from extend() with a type checker of their own ("array" admits tuples): every entry point, the
    # schema check included, is the class's own
    import jsonschema.validators as V
    for d in DRAFTS:
        base = _CLS[d]
        ext = V.extend(base, type_checker=base.TYPE_CHECKER.redefine("array", lambda c, x: isinstance(x, (list, tuple))))
        fam = [({"type": ("string", "null")}, 3), ({"enum": (1, 2)}, 3), ({"items": ({"type": "integer"}, {"type": "string"})}, (1, 2)),
               ({"enum": (1, 2)}, 1)]
        if d >= 4:
            fam += [({"required": ("a", "b")}, {"a": 1}), ({"allOf": ({"type": "integer"}, {"minimum": 3})}, 1.5)]
        for S, I in fam:
            rid += 1
            try:
                v = ext(S)
                e1 = list(v.iter_errors(I))
                rec = {"id": rid, "kind": "valid-schema", "iv1": v.is_valid(I), "iv2": v.is_valid(I),
                       "e1": [errrec.obs_err(e) for e in e1], "e2": [errrec.obs_err(e) for e in v.iter_errors(I)],
                       "vr": raised(lambda: v.validate(I)), "mr": raised(lambda: _JS.validate(I, S, cls=ext)),
                       "mr2": raised(lambda: _JS.validate(I, S, cls=ext))}
                b = _JS.exceptions.best_match(ext(S).iter_errors(I))
                rec["bm"] = {"k": "none", "e": _null_err()} if b is None else {"k": "err", "e": errrec.obs_err(b)}
                for f in ("vr", "mr", "mr2"):
                    rec[f].pop("what", None)
            except Exception as e:  # noqa
                ck.violation("raises_on_extended_class", {"draft": d, "schema": repr(S), "instance": repr(I),
                                                          "exception": "%s: %s" % (type(e).__name__, str(e)[:100])})
                continue
            recs.append(rec)
            real[rid] = {"draft": d, "class": "extend(Draft%dValidator, type_checker=<arrays admit tuples>)" % d, "schema": repr(S),
                         "instance": repr(I), "class_from_$schema": False, "format_checker": False}
            kinds["valid-schema"] += 1
            ck.count((d, repr(S), repr(I), "extended"), True)
    ck.notes["records_by_kind"] = kinds
    bad, states = tlc.validate_trace("trace/Trace_C04.tla", recs, "c04", shards=16)
    ck.states += states
    ck.transitions += states
    ck.validated += len(recs)
    for b in bad:
        for clause in b["clauses"]:
            if clause.startswith("~"):
                ck.skipped += 1
            else:
                ck.violation(clause, dict(real[b["id"]], source="Trace_C04", clause=clause))
    return ck.finish()
