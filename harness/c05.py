"""C05 - every violated keyword is reported, independently of its sibling keywords."""
import random

from harness import tlc, calibrate, errrec
from harness.common import Check, draft_classes, pmap, outcome_of
from harness.encode import dec, Unencodable
from harness.gen_schema import Gen

DRAFTS = (3, 4, 6, 7)
_CLS = None
_INST = None


def _cls():
    global _CLS
    if _CLS is None:
        _CLS = draft_classes()
    return _CLS


def replay_one(task):
    """(d, S, per-instance expectations) -> problems.  Expected error bags come from TLC (MC_Schema, errors mode)."""
    d, S, exp = task
    cls = _cls()[d]
    if outcome_of(lambda: cls.check_schema(S))[0] != "ok":
        return [("not_accepted", None, None, None)]
    r = outcome_of(lambda: cls(S))
    if r[0] != "ok":
        return [("raises", None, r[1:], None)]
    v = r[1]
    out = []
    for i, x in enumerate(exp):
        if x["ood"]:
            continue
        held, first = None, None
        if i % 2 == 1:
            # the caller still holds a partially consumed report of the SAME instance from the SAME validator (an earlier
            # `for error in v.iter_errors(x): ... break`-style use): the next report is complete all the same, and so is
            # the held one when it is resumed afterwards
            held = v.iter_errors(_INST[i])
            first = outcome_of(lambda: next(held, None))
        r = outcome_of(lambda: list(v.iter_errors(_INST[i])))
        if held is not None and first[0] == "ok":
            rest = outcome_of(lambda: list(held))
            if rest[0] == "ok":
                whole = ([first[1]] if first[1] is not None else []) + rest[1]
                if sorted(errrec.canon_obs(errrec.obs_err(e)) for e in whole) != sorted(errrec.canon_spec(e) for e in x["errs"]):
                    out.append(("spec_bag_resumed_report", i, [errrec.plain_err(e) for e in whole], x["errs"]))
        if r[0] != "ok":
            out.append(("raises", i, r[1:], None))
            continue
        got = sorted(errrec.canon_obs(errrec.obs_err(e)) for e in r[1])
        want = sorted(errrec.canon_spec(e) for e in x["errs"])
        if got != want:
            out.append(("spec_bag", i, [errrec.plain_err(e) for e in r[1]], x["errs"]))
    return out


def record_one(task):
    i, d, seed, loc = task
    rng = random.Random(seed)
    g = Gen(rng, d)
    S = g.schema()
    cls = _cls()[d]
    if outcome_of(lambda: cls.check_schema(S))[0] != "ok":
        return ("rejected",)
    if isinstance(S, dict) and rng.random() < 0.3:
        # members the draft does not define (names of later specifications that refine a keyword, next to that keyword):
        # they are no keywords of this draft, so they contribute nothing and are consulted by nothing
        from harness import c10
        names = c10.foreign_names(d)
        for _ in range(rng.randrange(1, 3)):
            where = rng.choice(c10.schema_positions(S))
            comp = [c for k in c10.at_path(S, where) if k in c10.COMPANIONS for c in c10.COMPANIONS[k]
                    if c in names or c not in c10.ALLKW]
            if comp:
                S = c10.insert_at(S, where, rng.choice(comp), rng.choice([0, 2, True, False, [], ["a"], {}, {"type": "null"}, "a"]))
        if outcome_of(lambda: cls.check_schema(S))[0] != "ok":
            return ("rejected",)
    out = []
    for j in range(3):
        I = g.instance(S)
        if rng.random() < 0.25:
            # an instance whose objects grow a member whenever a missing one is merely looked up (defaultdict-like):
            # every keyword sees the object as it was given
            from harness.c07 import autoviv
            I = autoviv(I)
        try:
            rec, plain = errrec.make_record(i * 3 + j, d, cls, S, I, loc=loc, with_restr=True, hold=(j == 1))
            out.append(("rec", rec, S, I, plain))
        except Unencodable:
            out.append(("unencodable",))
        except Exception as e:  # crashes are C03's business
            out.append(("raised", type(e).__name__))
    return ("ok", out)


def run_universe(ck, args, cfgname, handle):
    global _INST
    wd = tlc.workdir("c05lib-%s" % ck.pid)
    lib = calibrate.write_lib(wd + "/lib.json")
    jobs = [dict(module="mc/MC_Schema.tla", cfg="mc/MC_Schema_%s_d%d.cfg" % (cfgname, d), workers=4, timeout=7000,
                 heap="5g", env={"LIB_FILE": lib}) for d in DRAFTS]
    results = tlc.run_many(jobs, parallel=4)
    tlc.cleanup("c05lib-%s" % ck.pid)
    tasks = []
    for job, r in zip(jobs, results):
        if r.violation:
            ck.violation("spec_law", {"model": job["cfg"], "tlc": r.violation,
                                      "note": "the specification's own error model violates the law"})
            raise tlc.MachineryFailure("spec-level property violated in %s: %s" % (job["cfg"], r.violation))
        ck.add_tlc(r)
        d = int(job["cfg"].split("_d")[1][0])
        for ex in r.exports:
            if "instances" in ex:
                _INST = [dec(x) for x in ex["instances"]]
                continue
            tasks.append((d, dec(ex["S"]), ex["e"]))
    outs = pmap(replay_one, tasks, chunk=32)
    for t, probs in zip(tasks, outs):
        handle(t, probs)
    return tasks


def main(args):
    ck = Check("C05", args.tier, args.seed)
    quick = args.tier == "quick"
    ck.rule = ("spec side: TLC checks the union law (invariant C05Static) and the incremental law (action property C05Step) on "
               "every reachable state of the SchemaBuilder machine and exports, per (schema, instance), the expected bag of "
               "located errors (keyword, path, schema path, context); each is compared with the real iter_errors bag. "
               "code side: for seeded random deep schemas the errors of the whole schema and of each restriction "
               "{keyword + consulted siblings} are recorded and TLC checks the union relation (with message hashes and "
               "contexts) and equality with the specification's bag; likewise for single-keyword universe schemas next to a "
               "later-specification member refining that keyword (minContains next to contains, ...). Non-trivial: the instance yields at least one error; "
               "distinct by (draft, schema, instance).")

    def handle(t, probs):
        d, S, exp = t
        ck.replayed += 1
        for i, x in enumerate(exp):
            if not x["ood"]:
                ck.count((d, repr(S), i), bool(x["errs"]))
        if len(ck.samples) < 2 and any(len(x["errs"]) >= 2 for x in exp):
            i = [k for k, x in enumerate(exp) if len(x["errs"]) >= 2][0]
            ck.sample({"draft": d, "schema": S, "instance": _INST[i], "spec_errors": [
                {"kw": "".join(map(chr, e["kw"])), "ip": e["ip"], "sp": e["sp"], "n_ctx": len(e["ctx"])} for e in exp[i]["errs"]]})
        for kind, i, got, want in probs:
            if kind in ("not_accepted", "raises"):
                ck.skipped += 1
                continue
            ck.violation(kind, {"draft": d, "schema": S, "instance": _INST[i], "observed_errors": got,
                                "spec_errors": want, "source": "MC_Schema errors export"})

    utasks = run_universe(ck, args, "errors" if quick else "errorsW", handle)
    ck.exhaustive = True

    n = 1200 if quick else 40000
    outs = pmap(record_one, [(i, DRAFTS[i % 4], args.seed * 1000003 + i, False) for i in range(n)], chunk=16)
    recs, real = [], {}
    for o in outs:
        if o[0] != "ok":
            continue
        for x in o[1]:
            if x[0] == "rec":
                recs.append(x[1])
                real[x[1]["id"]] = {"draft": x[1]["d"], "schema": x[2], "instance": x[3], "observed_errors": x[4]}
                ck.count((x[1]["d"], repr(x[2]), repr(x[3])), bool(x[4]))
    # single-keyword universe schemas next to a member the draft does not define (a later specification's refinement of
    # that keyword): the member is no keyword, so the union law gives it no errors and nothing may consult it
    from harness import c10
    fam = []
    for d, S, exp in utasks:
        if isinstance(S, dict) and len(S) == 1 and list(S)[0] in c10.COMPANIONS:
            names = c10.foreign_names(d)
            for c in c10.COMPANIONS[list(S)[0]]:
                if c in names or c not in c10.ALLKW:
                    for val in (0, 2, True):
                        fam.append((d, S, dict(S, **{c: val}), exp))
    ck.rng.shuffle(fam)
    fid = 2 * 10 ** 7
    for d, S, S2, exp in fam[:(250 if quick else 4000)]:
        failing = [i for i, x in enumerate(exp) if x["errs"]]
        pick = sorted(set(ck.rng.sample(failing, min(3, len(failing))) + ck.rng.sample(range(len(_INST)), 3)))
        for i in pick:
            fid += 1
            try:
                rec, plain = errrec.make_record(fid, d, _cls()[d], S2, _INST[i], with_restr=True)
            except Unencodable:
                continue
            except Exception as e:  # noqa
                ck.violation("raises_next_to_undefined_member", {"draft": d, "schema": S2, "instance": _INST[i],
                                                                 "exception": "%s: %s" % (type(e).__name__, str(e)[:100])})
                continue
            recs.append(rec)
            real[fid] = {"draft": d, "schema": S2, "instance": _INST[i], "observed_errors": plain}
            ck.count((d, repr(S2), repr(_INST[i])), bool(plain))
    # reference-bearing scenarios (store documents, nested ids, a cross-document reference under not/disallow before a
    # local one): the union law must hold there too -- whole schema and every restriction run with the same store
    import copy
    from harness import scen, regex
    from harness.encode import enc, enc_str
    js = __import__("jsonschema")
    rid = 10 ** 7
    for d in DRAFTS:
        cls = _cls()[d]
        for sc in scen.scenarios(d):
            if sc["remote"] or sc["name"] in ("dangling", "recursive"):
                continue
            base = sc["schema"].get("id" if d <= 4 else "$id", "")

            def resolver_for(schema, sc=sc, cls=cls):
                # the referring document is always the WHOLE schema: a restriction {keyword + consulted siblings} must
                # still find the definitions its references point to
                return js.RefResolver.from_schema(copy.deepcopy(sc["schema"]), id_of=cls.ID_OF, store=copy.deepcopy(sc["store"]))
            for I in sc["instances"]:
                rid += 1
                try:
                    rec, plain = errrec.make_record(rid, d, cls, copy.deepcopy(sc["schema"]), copy.deepcopy(I), base=base,
                                                    with_restr=True, resolver_for=resolver_for)
                except Exception as e:  # noqa
                    ck.violation("raises_on_reference_scenario", {"draft": d, "scenario": sc["name"], "instance": I,
                                                                  "exception": "%s: %s" % (type(e).__name__, str(e)[:100])})
                    continue
                rec["more"] = [{"u": enc_str(u), "doc": enc(doc)} for u, doc in sc["store"].items()]
                rec["pats"] = regex.pats_table([sc["schema"]] + list(sc["store"].values()))
                recs.append(rec)
                real[rid] = {"draft": d, "scenario": sc["name"], "schema": sc["schema"], "store": sc["store"], "instance": I,
                             "observed_errors": plain}
                ck.count((d, sc["name"], repr(I)), bool(plain))
    wd = tlc.workdir("c05lib2")
    lib = calibrate.write_lib(wd + "/lib.json")
    bad, states = tlc.validate_trace("trace/Trace_Errors.tla", recs, "c05", shards=16, env={"LIB_FILE": lib})
    tlc.cleanup("c05lib2")
    ck.states += states
    ck.transitions += states
    ck.validated += len(recs)
    for b in bad:
        for clause in b["clauses"]:
            if clause.startswith("~"):
                if clause in ("~c05:badrestr", "~badregex"):
                    raise tlc.MachineryFailure("harness/spec disagree on %s for %r" % (clause, real[b["id"]]))
                ck.skipped += 1
            elif clause.startswith("c05:"):
                ck.violation(clause, dict(real[b["id"]], source="Trace_Errors", clause=clause))
    return ck.finish()
