"""C06 - each error locates itself truthfully in the instance and in the schema."""
import random

from harness import tlc, calibrate, errrec
from harness.common import Check, draft_classes, pmap, outcome_of
from harness.encode import dec, Unencodable
from harness.gen_schema import Gen

DRAFTS = (3, 4, 6, 7)
_CLS = None
_INST = None


def _cls():
    global _CLS
    if _CLS is None:
        _CLS = draft_classes()
    return _CLS


def record_universe(task):
    i, d, S, idxs = task
    cls = _cls()[d]
    if outcome_of(lambda: cls.check_schema(S))[0] != "ok":
        return []
    out = []
    for n, j in enumerate(idxs):
        try:
            rec, plain = errrec.make_record(i * 4 + n, d, cls, S, _INST[j], loc=True)
            out.append((rec, S, _INST[j], plain))
        except Exception:
            pass
    return out


def record_random(task):
    i, d, seed = task
    rng = random.Random(seed)
    g = Gen(rng, d)
    S = g.schema()
    cls = _cls()[d]
    if outcome_of(lambda: cls.check_schema(S))[0] != "ok":
        return []
    if i % 4 == 0:
        # a class obtained from extend() with nothing changed: its errors locate themselves exactly as its parent's do
        import jsonschema.validators as V
        cls = V.extend(cls)
    out = []
    for j in range(3):
        I = g.instance(S)
        try:
            rec, plain = errrec.make_record(10**7 + i * 3 + j, d, cls, S, I, loc=True)
            if rec["errs"]:
                out.append((rec, S, I, plain))
        except Exception:
            pass
    return out


def count_errs(es):
    return sum(1 + count_errs(e["ctx"]) for e in es)


def main(args):
    global _INST
    ck = Check("C06", args.tier, args.seed)
    quick = args.tier == "quick"
    ck.rule = ("spec side: TLC checks on every state of the SchemaBuilder universe that every error of the semantics locates "
               "itself (invariant C06Spec: schema path walks, through reference hops, to the keyword value; instance path "
               "walks into the instance). code side: for universe (schema, invalid instance) pairs (stride sample: up to "
               "%d invalid instances per schema) and for seeded random deep schemas, every real error with all its "
               "context errors is recorded with relative/absolute paths, instance, schema, keyword value and json_path, "
               "and TLC evaluates the located-ness clauses on each; the reference scenarios (store documents, nested ids, chains, recursion) add errors whose schema paths hop through references. Non-trivial: an error whose absolute instance or "
               "schema path has >= 2 elements; evaluations counts errors (incl. context)." % (2 if quick else 4))
    wd = tlc.workdir("c06lib")
    lib = calibrate.write_lib(wd + "/lib.json")
    jobs = [dict(module="mc/MC_Schema.tla", cfg="mc/MC_Schema_locate_d%d.cfg" % d, workers=4, timeout=7000, heap="5g",
                 env={"LIB_FILE": lib}) for d in DRAFTS]
    results = tlc.run_many(jobs, parallel=4)
    tasks = []
    per = 2 if quick else 4
    for job, r in zip(jobs, results):
        if r.violation:
            raise tlc.MachineryFailure("the specification's own errors do not locate themselves: %s %s" % (job["cfg"], r.violation))
        ck.add_tlc(r)
        d = int(job["cfg"].split("_d")[1][0])
        for ex in r.exports:
            if "instances" in ex:
                _INST = [dec(x) for x in ex["instances"]]
                continue
            bad_idx = [i for i, b in enumerate(ex["v"]) if b == 0]
            if not bad_idx:
                continue
            ck.rng.shuffle(bad_idx)
            # prefer structured instances (longer paths): arrays/objects come later in the list
            bad_idx.sort(key=lambda i: -i)
            tasks.append((len(tasks), d, dec(ex["S"]), bad_idx[:per]))
    outs = pmap(record_universe, tasks, chunk=32)
    n = 1500 if quick else 40000
    outs += pmap(record_random, [(i, DRAFTS[i % 4], args.seed * 1000003 + i) for i in range(n)], chunk=16)
    # errors that pass through references (schema paths hop exactly at reference objects; store documents; nested ids)
    import copy
    from harness import scen, regex
    from harness.encode import enc, enc_str
    js = __import__("jsonschema")
    refrecs = []
    rid = 5 * 10 ** 7
    for d in DRAFTS:
        cls = _cls()[d]
        for sc in scen.scenarios(d):
            if sc["remote"] or sc["name"] == "dangling":
                continue
            base = sc["schema"].get("id" if d <= 4 else "$id", "")

            def resolver_for(schema, sc=sc, cls=cls):
                return js.RefResolver.from_schema(schema, id_of=cls.ID_OF, store=copy.deepcopy(sc["store"]))
            for I in sc["instances"]:
                rid += 1
                try:
                    used = js.validators.extend(cls) if rid % 2 else cls          # (every other one through extend(cls))
                    rec, plain = errrec.make_record(rid, d, used, copy.deepcopy(sc["schema"]), copy.deepcopy(I), base=base, loc=True,
                                                    resolver_for=resolver_for)
                except Exception:
                    continue
                rec["more"] = [{"u": enc_str(u), "doc": enc(doc)} for u, doc in sc["store"].items()]
                rec["pats"] = regex.pats_table([sc["schema"]] + list(sc["store"].values()))
                refrecs.append((rec, {"scenario": sc["name"], **sc["schema"]} and sc["schema"], I, plain))
    outs.append(refrecs)
    # contexts inside contexts: a union applied directly to the instance of an enclosing union (the inner errors' parent
    # has an EMPTY relative path) below a property / an array item (an ancestor further up has a non-empty one)
    nested = []
    nid = 6 * 10 ** 7
    for d in DRAFTS:
        cls = _cls()[d]
        leaves = [{"type": "string"}, {"minimum": 5}, {"enum": [None]}]
        for l1 in leaves:
            for l2 in leaves:
                if d == 3:
                    inner = {"type": [{"type": [l1, "null"]}, {"type": [l2, {"maxLength": 0}]}]}
                else:
                    inner = {"anyOf": [{"anyOf": [l1]}, {"oneOf": [l2, {"allOf": [{"anyOf": [l1, l2]}]}]}]}
                for S in ({"properties": {"a": inner}}, {"items": inner}, {"properties": {"a": {"items": [{}, inner]}}}):
                    for I in ({"a": 3}, [3, "s"], {"a": [1, 3]}, {"a": "long"}, [None, 4]):
                        nid += 1
                        try:
                            rec, plain = errrec.make_record(nid, d, cls, S, I, loc=True)
                        except Exception:  # noqa
                            continue
                        if plain:
                            nested.append((rec, S, I, plain))
    outs.append(nested)
    recs, real = [], {}

    def walk(es):
        for e in es:
            ck.count((len(recs), repr(e["aip"]), repr(e["asp"]), repr(e["kw"])), len(e["aip"]) >= 2 or len(e["asp"]) >= 2)
            walk(e["ctx"])
    for o in outs:
        for rec, S, I, plain in o:
            recs.append(rec)
            real[rec["id"]] = {"draft": rec["d"], "schema": S, "instance": I, "observed_errors": plain}
            walk(rec["errs"])
            if len(ck.samples) < 3 and any(e["ctx"] for e in rec["errs"]):
                ck.sample({"draft": rec["d"], "schema": S, "instance": I, "errors": plain})
    bad, states = tlc.validate_trace("trace/Trace_Errors.tla", recs, "c06", shards=16, env={"LIB_FILE": lib}, heap="3g")
    tlc.cleanup("c06lib")
    ck.states += states
    ck.transitions += states
    ck.validated += len(recs)
    for b in bad:
        for clause in b["clauses"]:
            if clause.startswith("~"):
                ck.skipped += 1
            elif clause.startswith("c06:"):
                ck.violation(clause, dict(real[b["id"]], source="Trace_Errors", clause=clause))
    return ck.finish()
