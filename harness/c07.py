"""C07 - validation is pure and history-independent; a validator can be reused forever."""
import copy
import json
import os

from harness import tlc, scen, tracing
from harness.common import Check, import_lib
from harness.encode import enc_str, dec_str

DRAFTS = (3, 4, 6, 7)


def observed_outputs(js, res, n0, gen_out):
    return gen_out


class AutoDict(dict):
    """an object instance that grows a member whenever a missing one is LOOKED UP (collections.defaultdict, an
    autovivifying tree): validation only ever needs to ask whether a member is there"""
    def __missing__(self, key):
        self[key] = AutoDict()
        return self[key]


def autoviv(x):
    if isinstance(x, dict):
        return AutoDict((k, autoviv(v)) for k, v in x.items())
    if isinstance(x, list):
        return [autoviv(v) for v in x]
    return x


def run_op(js, d, sc, v, res, h, op, table, snap):
    """perform one operation on the real validator; returns (outputs, status, restored, mutated)"""
    I = copy.deepcopy(sc["instances"][op["i"] - 1]) if op["op"] in ("exhaust", "first", "take") else None
    I0 = copy.deepcopy(I)
    if op.get("via") in ("validate", "drop") or (op["op"] == "exhaust" and op["i"] % 2 == 0):
        I = autoviv(I)
    out, status = [], "done"
    n0 = len(res.events)

    def flush():
        nonlocal n0
        for ev in res.events[n0:]:
            if ev["ev"] == "resolve":
                out.append({"k": "res", "v": ev["url"] if ev["ok"] else None, "ref": ev["ref"], "scope": ev["scope"]})
        n0 = len(res.events)
    try:
        if op["op"] == "exhaust":
            gen = v.iter_errors(I)
            for e in gen:
                flush()
                out.append({"k": "yield", "v": table.get(scen.canon(e), -1)})
            flush()
        elif op["op"] == "first":
            if op.get("via") == "validate":
                try:
                    v.validate(I)
                except js.exceptions.ValidationError as e:
                    flush()
                    out.append({"k": "yield", "v": table.get(scen.canon(e), -1)})
                    status = "closed"
                flush()
            else:
                ok = v.is_valid(I)
                flush()
                if not ok:
                    out.append({"k": "yield", "v": None})     # is_valid does not expose the error
                    status = "closed"
        elif op["op"] == "take":
            gen = v.iter_errors(I)
            k = 0
            for e in gen:
                flush()
                out.append({"k": "yield", "v": table.get(scen.canon(e), -1)})
                k += 1
                if k == op["k"]:
                    status = "closed"
                    break
            if op.get("via") == "drop":
                del gen
            else:
                gen.close()
            flush()
        elif op["op"] == "resolve":
            try:
                url, _ = res.resolve(sc["refs"][op["i"] - 1])
            except js.exceptions.RefResolutionError:
                pass
            flush()
        elif op["op"] == "inscope":
            class Boom(Exception):
                pass
            try:
                with res.in_scope("sub/dir/"):
                    try:
                        res.resolve(sc["refs"][op["i"] - 1])
                    except js.exceptions.RefResolutionError:
                        pass
                    if op.get("via") == "raise":
                        raise Boom()
            except Boom:
                pass
            flush()
        elif op["op"] == "resolving":
            class Boom2(Exception):
                pass
            try:
                with res.resolving(sc["refs"][op["i"] - 1]):
                    try:
                        res.resolve("#")
                    except js.exceptions.RefResolutionError:
                        pass
                    if op.get("via") == "raise":
                        raise Boom2()
            except (Boom2, js.exceptions.RefResolutionError):
                pass
            flush()
        elif op["op"] == "toggle":
            h.failing.clear()
    except js.exceptions.RefResolutionError:
        flush()
        status = "raised"
    except Exception as e:  # noqa -- anything else escaping is itself a history effect (or C03's business on a fresh object)
        flush()
        status = "crash:" + type(e).__name__
    restored = list(res._scopes_stack) == [snap["base"]]
    mutated = (I is not None and I != I0) or v.schema != snap["schema"] or \
        any(res.store.get(u) != doc for u, doc in snap["store"].items())
    return out, status, restored, mutated


def _defrag(u):
    a, _, b = u.partition("#")
    return a, b


def compare(expected, got, status_e, status_g, first_via_is_valid):
    """model outputs vs observed outputs (URL of every successful resolution, id of every yielded error)"""
    exp = [(o["k"], dec_str(o["v"]) if o["k"] == "res" else o["v"]) for o in expected]
    obs = []
    for o in got:
        if o["k"] == "res":
            obs.append(("res", o["v"]))
        else:
            obs.append(("yield", o["v"]))
    if first_via_is_valid:
        exp = [(k, None if k == "yield" else v) for k, v in exp]
    # a failing resolution has no URL in the observation: the model records the URL it would have had
    if len(exp) != len(obs):
        return False
    for (ke, ve), (ko, vo) in zip(exp, obs):
        if ke != ko:
            return False
        if ko == "res" and vo is None:
            continue
        if ko == "res":
            if ve.rstrip("#") != vo.rstrip("#") and not (ve.endswith("#") or vo.endswith("#")) or \
                    _defrag(ve) != _defrag(vo):
                return False
        elif ve != vo:
            return False
    se = {"suspended": "closed"}.get(status_e, status_e)
    return se == status_g or (se == "done" and status_g == "done")


def main(args):
    ck = Check("C07", args.tier, args.seed)
    js = import_lib()
    quick = args.tier == "quick"
    ck.rule = ("design level: TLC model-checks the generator/finally protocol (spec/Iterators, MC_Iter) over ALL well-nested "
               "scripts of <= %d events x all histories of <= %d operations on two iterators of one validator (invariants "
               "ScopeRestored, Balanced, HistoryFree) and confirms that the negative controls NoFinally, AllowReentry and CloseUnwinds = FALSE (clean-up on exceptions only, not on close) "
               "violate them. binding: for up to %d concrete scenarios per draft plus every reference-bearing case of the bundled official suite (ref.json, refRemote.json, definitions.json; their tests' instances) (nested id + relative reference, recursion, remote "
               "document through a handler that fails then succeeds, dangling pointer, cross-document reference under "
               "not/disallow before a local reference, anyOf/oneOf/contains/if over references, the same pointer string meaning different things in two documents) the script of every "
               "instance is measured on a fresh validator with a tracing resolver and validated against the model "
               "(Conforms); TLC enumerates every history of <= %d operations (exhaust, is_valid/validate, take-2-then-"
               "close/drop (half of the instances as autovivifying dict subclasses, which a mere lookup would modify), direct resolve, the in_scope and resolving context managers with a body that raises, handler toggle), executes the model and exports the expected outputs; each "
               "history is replayed on ONE real validator object, comparing outputs, resolution scope, and deep snapshots "
               "of instance, schema and store. Non-trivial: history with >= 2 operations touching references; distinct "
               "by (draft, scenario, history)." % (3 if quick else 4, 4 if quick else 5, 7, 2 if quick else 3))
    # ---- design level -----------------------------------------------------------------------------------------
    r = tlc.run("mc/MC_Iter.tla", cfg="mc/MC_Iter_%s.cfg" % args.tier, workers=16, timeout=3000)
    if r.violation:
        raise tlc.MachineryFailure("protocol model violated: " + r.violation)
    ck.add_tlc(r, "MC_Iter")
    for neg, inv in (("neg_nofinally", "ScopeRestored"), ("neg_reentry", "HistoryFree"), ("neg_closeleak", "ScopeRestored")):
        rn = tlc.run("mc/MC_Iter.tla", cfg="mc/MC_Iter_%s.cfg" % neg, workers=8, timeout=3000, expect_violation=True)
        if not rn.violation or inv not in rn.violation:
            raise tlc.MachineryFailure("negative control %s did not violate %s (vacuous invariant?)" % (neg, inv))
        ck.notes.setdefault("negative_controls_violated", []).append("%s: %s" % (neg, rn.violation))
    # ---- scenarios: measure scripts ------------------------------------------------------------------------------
    scens, meta = [], []
    for d in DRAFTS:
        for sc in scen.scenarios(d) + scen.suite_scenarios(d):
            table = {}
            ok = [scen.measure(d, sc, I, False, table) for I in sc["instances"]]
            fail = [scen.measure(d, sc, I, True, table) for I in sc["instances"]] if sc["remote"] else ok
            cls_id = "id" if d <= 4 else "$id"
            base = sc["schema"].get(cls_id, "")
            if not isinstance(base, str):
                base = ""
            def resolves(ref, failing):
                v0, r0, h0 = scen.build(d, sc, handler_fail=failing)
                try:
                    r0.resolve(ref)
                    return True
                except js.exceptions.RefResolutionError:
                    return False
            scens.append({"base": enc_str(base), "ok": ok, "fail": fail, "mode0": "fail" if sc["remote"] else "ok",
                          "refs": [enc_str(x) for x in sc["refs"]],
                          "refok": [resolves(x, False) for x in sc["refs"]],
                          "refokfail": [resolves(x, bool(sc["remote"])) for x in sc["refs"]]})
            meta.append((d, sc, table, base))
    wd = tlc.workdir("c07")
    sf = os.path.join(wd, "scen.json")
    json.dump(scens, open(sf, "w"))
    r = tlc.run("mc/MC_IterScen.tla", cfg="mc/MC_IterScen_%s.cfg" % args.tier, workers=16, timeout=3000,
                env={"SCEN_FILE": sf}, heap="6g")
    tlc.cleanup("c07")
    if r.violation and "AllConform" in r.violation:
        ck.violation("scope_events_do_not_conform", {"tlc": r.violation, "note": "a measured script (scopes / URLs reported by "
                     "the real resolver) is not reproduced by the model's RFC 3986 scope computation"})
    elif r.violation:
        raise tlc.MachineryFailure("scenario model violated: " + r.violation)
    ck.add_tlc(r, "MC_IterScen")
    # ---- replay every history on one real validator -----------------------------------------------------------
    vias = {"first": ["is_valid", "validate"], "take": ["close", "drop"], "inscope": ["plain", "raise"], "resolving": ["raise", "plain"]}
    for n, ex in enumerate(r.exports):
        d, sc, table, base = meta[ex["sc"] - 1]
        v, res, h = scen.build(d, sc, handler_fail=bool(sc["remote"]))
        snap = {"base": base, "schema": copy.deepcopy(v.schema), "store": {u: copy.deepcopy(doc) for u, doc in res.store.items()}}
        ck.replayed += 1
        hist = ex["h"]
        ck.count((d, sc["name"], repr([(o["op"], o["i"], o["k"]) for o in hist])), len(hist) >= 2)
        for k, step in enumerate(hist):
            op = dict(step)
            if op["op"] in vias:
                op["via"] = vias[op["op"]][(n + k) % 2]
            got, status, restored, mutated = run_op(js, d, sc, v, res, h, op, table, snap)
            case = {"draft": d, "scenario": sc["name"], "schema": sc["schema"], "history": [
                {"op": o["op"], "instance": sc["instances"][o["i"] - 1] if o["op"] in ("exhaust", "first", "take") else None,
                 "ref": sc["refs"][o["i"] - 1] if o["op"] in ("resolve", "inscope", "resolving") else None,
                 "k": o["k"]} for o in hist[:k + 1]], "failing_step": k, "via": op.get("via"),
                "expected_outputs": [(o["k"], dec_str(o["v"]) if o["k"] == "res" else o["v"]) for o in step["out"]],
                "observed_outputs": got, "source": "MC_IterScen"}
            if mutated:
                ck.violation("mutation", case)
            if not restored:
                ck.violation("scope_not_restored", dict(case, scope_stack=list(res._scopes_stack)))
                break
            if op["op"] != "toggle" and not compare(step["out"], got, step["status"], status, op.get("via") == "is_valid"):
                ck.violation("history_dependent_result", dict(case, expected_status=step["status"], observed_status=status))
                break
        if len(ck.samples) < 2 and len(hist) >= 2 and hist[0]["op"] == "take":
            ck.sample({"draft": d, "scenario": sc["name"], "history": [(o["op"], o["i"], o["k"]) for o in hist],
                       "expected_outputs_of_last_step": [(o["k"], dec_str(o["v"]) if o["k"] == "res" else o["v"]) for o in hist[-1]["out"]]})
    ck.exhaustive = True
    return ck.finish()
