"""C08 - enum, const and uniqueItems use JSON equality at every nesting depth."""
from harness import tlc
from harness.common import Check, draft_classes
from harness.encode import enc, dec, canon

DRAFTS = (3, 4, 6, 7)


def ordered(x):
    """the same JSON value with every object an OrderedDict (as json.load(object_pairs_hook=OrderedDict) gives them):
    Python compares those key-order-sensitively, JSON objects are unordered"""
    from collections import OrderedDict
    if isinstance(x, dict):
        return OrderedDict((k, ordered(v)) for k, v in x.items())
    if isinstance(x, list):
        return [ordered(v) for v in x]
    return x


def has_object(x):
    return isinstance(x, dict) or (isinstance(x, list) and any(has_object(v) for v in x))


def observe_pair(cls, a, b):
    """what the real keywords answer for the pair (a, b)"""
    c = [cls[d]({"const": a}).is_valid(b) for d in (6, 7)]
    if has_object(a) and has_object(b):
        oa, ob = ordered(a), ordered(b)
        c += [cls[d]({"const": oa}).is_valid(ob) for d in (6, 7)]
    # (a longer enum of scalars next to `a`: b matches it exactly when it equals a -- the pads occur nowhere else)
    e = [cls[d]({"enum": [a]}).is_valid(b) for d in DRAFTS] + [cls[d]({"enum": [a, "pad-1", "pad-2", "pad-3", "pad-4", "pad-5", "pad-6", "pad-7", "pad-8"]}).is_valid(b) for d in DRAFTS]
    u = [cls[d]({"uniqueItems": True}).is_valid([a, b]) for d in DRAFTS]
    if has_object(a) and has_object(b):
        e += [cls[d]({"enum": [oa]}).is_valid(ob) for d in DRAFTS]
        u += [cls[d]({"uniqueItems": True}).is_valid([oa, ob]) for d in DRAFTS]
    return c, e, u


def mutate(rng, v, depth=0):
    """a copy of v changed (maybe) at one random place by a JSON-equality-relevant edit"""
    kind = rng.random()
    if isinstance(v, list) and v and kind < 0.6:
        i = rng.randrange(len(v))
        w = list(v)
        if kind < 0.1 and len(v) > 1:
            j = rng.randrange(len(v))
            w[i], w[j] = w[j], w[i]
        else:
            w[i] = mutate(rng, v[i], depth + 1)
        return w
    if isinstance(v, dict) and v and kind < 0.7:
        ks = list(v)
        if kind < 0.15:
            rng.shuffle(ks)
            return {k: v[k] for k in ks}
        if kind < 0.3:          # rename one key (same size, different key set), sometimes to a null-valued member
            k = rng.choice(ks)
            w = {kk: vv for kk, vv in v.items() if kk != k}
            w[rng.choice(["zz", "b", "c", ""])] = rng.choice([v[k], None])
            return w
        k = rng.choice(ks)
        w = dict(v)
        w[k] = mutate(rng, v[k], depth + 1)
        return w
    swaps = {True: 1, False: 0}
    if isinstance(v, bool):
        return rng.choice([swaps[v], float(swaps[v]), v])
    if isinstance(v, int):
        if v in (0, 1):
            return rng.choice([bool(v), float(v), v, -0.0 if v == 0 else 1.0])
        return rng.choice([float(v), v + 1, v]) if abs(v) < 2**60 else rng.choice([v + 1, v])
    if isinstance(v, float):
        return rng.choice([int(v), v, bool(v)]) if v == int(v) and abs(v) <= 1 else (int(v) if v == int(v) else v)
    if isinstance(v, str):
        return rng.choice([v, v + "a", "1" if v == "" else v])
    return v


def rand_value(rng, depth):
    r = rng.random()
    if depth <= 0 or r < 0.35:
        return rng.choice([None, True, False, 0, 1, -0.0, 0.0, 1.0, 2, 2**53, float(2**53), 2**53 + 1, "", "a", "1",
                           -1, 1.5, 10**30, 1e30])
    if r < 0.7:
        return [rand_value(rng, depth - 1) for _ in range(rng.randrange(0, 4))]
    return {k: rand_value(rng, depth - 1) for k in rng.sample(["a", "b", "c", ""], rng.randrange(0, 4))}


def main(args):
    ck = Check("C08", args.tier, args.seed)
    cls = draft_classes()
    quick = args.tier == "quick"
    ck.rule = ("pairs of JSON values = reachable states of spec/mc/MC_C08 (atoms incl. bool/0/1/1.0/-0.0/2^53/2^53+1, "
               "wrapped in arrays/objects to depth %d); arrays = reachable states of MC_C08U (length <= %d over 15 "
               "elements hitting the hash, sort and brute-force strategies); plus seeded random deep values with "
               "targeted mutations validated by Trace_C08. A case is non-trivial when the two values have the same JSON "
               "type (pairs) or the array has >= 2 elements (arrays); distinct by canonical hash of the case."
               % (1 if quick else 2, 3 if quick else 4))

    # ---- M1: TLC enumerates the universes, checks the spec-level laws, exports the expected relation --------
    r = tlc.run("mc/MC_C08.tla", cfg="mc/MC_C08_%s.cfg" % args.tier, workers=16, timeout=3000)
    if r.violation:
        raise tlc.MachineryFailure("spec-level law violated in MC_C08: " + r.violation)
    ck.add_tlc(r)
    for ex in r.exports:
        a, b, eq = dec(ex["a"]), dec(ex["b"]), ex["eq"]
        c, e, u = observe_pair(cls, a, b)
        ck.replayed += 1
        ck.count(("pair", canon(a), canon(b), repr(a), repr(b)), type(a) == type(b) or eq)
        if eq and a is not b:
            ck.sample({"a": a, "b": b, "json_equal": eq, "const": c, "enum": e, "uniqueItems_on_[a,b]": u})
        for name, obs, want in (("const", c, eq), ("enum", e, eq), ("uniqueItems", u, not eq)):
            if any(o != want for o in obs):
                ck.violation(name, {"a": a, "b": b, "spec_json_equal": eq, "observed": obs, "expected_all": want,
                                    "source": "MC_C08"})
    r = tlc.run("mc/MC_C08U.tla", cfg="mc/MC_C08U_%s.cfg" % args.tier, workers=16, timeout=3000)
    if r.violation:
        raise tlc.MachineryFailure("spec-level law violated in MC_C08U: " + r.violation)
    ck.add_tlc(r)
    for ex in r.exports:
        arr, want = dec(ex["arr"]), ex["uniq"]
        obs = [cls[d]({"uniqueItems": True}).is_valid(arr) for d in DRAFTS]
        ck.replayed += 1
        ck.count(("arr", canon(arr), repr(arr)), len(arr) >= 2)
        if len(arr) == 3 and not want:
            ck.sample({"array": arr, "spec_unique": want, "uniqueItems": obs}, limit=8)
        if any(o != want for o in obs):
            ck.violation("uniqueItems", {"array": arr, "spec_unique": want, "observed": obs, "source": "MC_C08U"})
    ck.exhaustive = True

    # ---- M4: random deep values, recorded from the code, validated by TLC ----------------------------------
    n = 1500 if quick else 40000
    recs, real = [], {}
    for i in range(n):
        kind = ck.rng.random()
        a = rand_value(ck.rng, ck.rng.randrange(1, 5))
        if kind < 0.6:
            b = mutate(ck.rng, a) if ck.rng.random() < 0.8 else rand_value(ck.rng, 3)
            c, e, u = observe_pair(cls, a, b)
            rec = {"id": i, "kind": "pair", "a": enc(a), "b": enc(b), "c": c, "e": e, "u": u}
            real[i] = {"a": a, "b": b, "observed": {"const": c, "enum": e, "uniqueItems": u}}
            ck.count(("pair", repr(a), repr(b)), True)
        elif kind < 0.8:
            cs = [mutate(ck.rng, a) for _ in range(ck.rng.randrange(1, 4))] + [rand_value(ck.rng, 2)]
            ck.rng.shuffle(cs)
            e = [cls[d]({"enum": cs}).is_valid(a) for d in DRAFTS]
            rec = {"id": i, "kind": "enum", "cs": [enc(x) for x in cs], "x": enc(a), "e": e}
            real[i] = {"enum": cs, "instance": a, "observed": e}
            ck.count(("enum", repr(cs), repr(a)), True)
        else:
            arr = [rand_value(ck.rng, 2) for _ in range(ck.rng.randrange(2, 5))]
            for _ in range(ck.rng.randrange(0, 3)):
                arr.insert(ck.rng.randrange(len(arr) + 1), mutate(ck.rng, ck.rng.choice(arr)))
            u = [cls[d]({"uniqueItems": True}).is_valid(arr) for d in DRAFTS]
            rec = {"id": i, "kind": "arr", "arr": enc(arr), "u": u}
            real[i] = {"array": arr, "observed": u}
            ck.count(("arr", repr(arr)), True)
        recs.append(rec)
    bad, states = tlc.validate_trace("trace/Trace_C08.tla", recs, "c08", shards=16)
    ck.states += states
    ck.transitions += states
    ck.validated += len(recs)
    for b in bad:
        for clause in b["clauses"]:
            ck.violation(clause, dict(real[b["id"]], source="Trace_C08", clause=clause))
    return ck.finish()
