"""C09 - numeric keywords are exact for numbers of any magnitude and never raise."""
import math
import sys
import struct
from fractions import Fraction

from harness import tlc, encode
from harness.common import Check, draft_classes
from harness.encode import enc, dec

DRAFTS = (3, 4, 6, 7)
FORMS = ("minimum", "exclusiveMinimum", "maximum", "exclusiveMaximum", "multipleOf", "maximum+exclusiveMaximum", "minimum+exclusiveMinimum",
         "nested exclusiveMinimum", "nested exclusiveMaximum")
encode.MAXBITS = 20000


def schemas_for(d, b):
    """the five single-keyword(-family) schemas of draft d with bound b; None where not applicable"""
    if d in (3, 4):
        out = [{"minimum": b}, {"minimum": b, "exclusiveMinimum": True},
               {"maximum": b}, {"maximum": b, "exclusiveMaximum": True}]
    else:
        out = [{"minimum": b}, {"exclusiveMinimum": b}, {"maximum": b}, {"exclusiveMaximum": b}]
    out.append(({"divisibleBy": b} if d == 3 else {"multipleOf": b}) if b > 0 else None)
    # both keywords of a pair in one schema object (drafts 6/7): the far bound must not disturb the near one
    out.append({"maximum": b, "exclusiveMaximum": 2 ** 1300} if d >= 6 else None)
    out.append({"minimum": b, "exclusiveMinimum": -2 ** 1300} if d >= 6 else None)
    # the exclusive forms inside a nested subschema, next to an INCLUSIVE root (forms 8, 9; validated on [x])
    if d in (3, 4):
        out.append({"minimum": -2 ** 1300, "items": {"minimum": b, "exclusiveMinimum": True}})
        out.append({"maximum": 2 ** 1300, "items": {"maximum": b, "exclusiveMaximum": True}})
    else:
        out.append({"minimum": -2 ** 1300, "items": {"exclusiveMinimum": b}})
        out.append({"maximum": 2 ** 1300, "items": {"exclusiveMaximum": b}})
    return out


class Observer(object):
    def __init__(self, cls):
        self.cls = cls
        self.cache = {}

    def validators(self, b):
        key = (type(b), b, math.copysign(1, b) if isinstance(b, float) else 0)
        v = self.cache.get(key)
        if v is None:
            if len(self.cache) > 5000:
                self.cache.clear()
            v = [[(self.cls[d](s) if s is not None else None) for s in schemas_for(d, b)] for d in DRAFTS]
            self.cache[key] = v
        return v

    def other_spelling(self, b):
        """the same number written the other way (2 <-> 2.0), when both spellings denote exactly the same value"""
        if isinstance(b, float) and b == int(b) and abs(b) < 2 ** 53:
            return int(b)
        if isinstance(b, int) and abs(b) < 2 ** 53:
            return float(b)
        return None

    def observe(self, x, b):
        obs, exc = [], []
        # the process has already met the bound / divisor in its OTHER spelling (the verdict may differ between the
        # spellings -- 2**53+1 is no multiple of 2 but its float quotient by 2.0 is integral -- and nothing learnt
        # about one may be applied to the other)
        ob = self.other_spelling(b)
        if ob is not None:
            for row in self.validators(ob):
                for v in row:
                    if v is not None:
                        try:
                            v.is_valid(x)
                        except Exception:  # noqa
                            pass
        for row in self.validators(b):
            o = []
            for j, v in enumerate(row):
                if v is None:
                    o.append("n/a")
                    continue
                try:
                    o.append("valid" if v.is_valid([x] if j >= 7 else x) else "invalid")
                except Exception as e:  # noqa
                    o.append("raise")
                    exc.append("%s: %s" % (type(e).__name__, str(e)[:40]))
            obs.append(o)
        return obs, exc


def txt(x):
    """text of a number for reports; integers beyond the interpreter's int->str limit are written in hexadecimal"""
    if isinstance(x, int) and not isinstance(x, bool) and beyond_limit(x):
        return hex(x)
    return repr(x)


def beyond_limit(x):
    lim = sys.get_int_max_str_digits() if hasattr(sys, "get_int_max_str_digits") else 0
    return bool(lim) and isinstance(x, int) and not isinstance(x, bool) and x.bit_length() * 0.30103 > lim


def rand_float(rng):
    while True:
        f = struct.unpack("<d", struct.pack("<Q", rng.getrandbits(64)))[0]
        if not (math.isnan(f) or math.isinf(f)):
            return f


def rand_case(rng):
    """(x, b, witness|None) from the families listed in DESIGN.md C09"""
    k = rng.randrange(10)
    sgn = rng.choice([1, 1, -1])
    if k == 0:
        return rand_float(rng), rand_float(rng), None
    if k == 1:  # x = m * b exactly (small numerators)
        b = math.ldexp(rng.randrange(1, 1 << rng.choice([1, 3, 10, 20])), rng.randrange(-300, 300))
        m = rng.randrange(0, 1 << rng.choice([1, 8, 30]))
        x = Fraction(m) * Fraction(b)
        if rng.random() < 0.4:
            x += Fraction(b) / (1 << rng.choice([1, 2, 3, 8]))
        try:
            xf = float(x)
        except OverflowError:
            return sgn * int(x), b, None
        if Fraction(xf) != x:
            return rand_float(rng), b, None
        return sgn * xf, b, None
    if k == 2:  # power-of-two divisor
        b = math.ldexp(1.0, rng.randrange(-1074, 1024))
        x = rng.choice([rand_float(rng), float(rng.randrange(1 << 53)), rng.randrange(1 << 53), rng.getrandbits(rng.randrange(54, 3000))])
        return sgn * x, b, None
    if k == 3:  # integer divisor, float instance
        b = rng.choice([rng.randrange(1, 1 << rng.choice([3, 14, 53])), 1 << 53, (1 << 53) + rng.randrange(1, 9), 10 ** rng.randrange(16, 400)])
        x = rng.choice([rand_float(rng), float(b) * rng.randrange(0, 50) if b < 1 << 900 else 1.5, math.ldexp(rng.randrange(1 << 53), rng.randrange(-60, 60))])
        return sgn * x, b, None
    if k == 4:  # huge integers with a sparse quotient: witnessed
        b = rng.getrandbits(rng.randrange(2, 2500)) | 1 << rng.randrange(0, 8)
        q = 0
        for _ in range(rng.randrange(0, 6)):
            q |= 1 << rng.randrange(0, 3000)
        r = rng.choice([0, 0, rng.randrange(0, b), 1 % b])
        x = q * b + r
        return sgn * x, b, (q, r)
    if k == 5:  # around 2^53 where neighbouring integers collapse in floating point
        base = rng.choice([1 << 53, 1 << 54, 1 << 63, 1 << 64, 10 ** 17])
        x = base + rng.randrange(-3, 4)
        b = rng.choice([float(base), base, float(base) * 2, base + rng.randrange(-3, 4), float(base + 2)])
        return sgn * rng.choice([x, float(x)]), rng.choice([1, -1]) * b, None
    if k == 6:  # subnormals and the smallest/largest doubles
        tiny = [5e-324, 2.2250738585072014e-308, 2.225073858507201e-308, 1.7976931348623157e308, 1e-320]
        return sgn * rng.choice(tiny + [rand_float(rng)]), rng.choice(tiny + [0.5, 2.0, 3, 1 << 60]), None
    if k == 7:  # zero, negative zero, integer-valued floats
        return rng.choice([0, 0.0, -0.0, 1.0, -1.0, 2.0 ** 60, 10 ** 25, 1e25]), rng.choice([0, 0.0, -0.0, 1, 1.0, 0.5, 3, 2.5, 10 ** 25, 1e25, -1]), None
    if k == 8:  # moderately sized dense integers (decided by long division in the spec)
        b = rng.getrandbits(rng.randrange(16, 60)) | 1
        x = rng.choice([b * rng.getrandbits(rng.randrange(1, 70)), rng.getrandbits(rng.randrange(1, 120))])
        return sgn * x, b, None
    # huge integer against a float divisor below one / a huge float
    x = rng.getrandbits(rng.randrange(1000, 5000) if rng.random() < 0.8 else rng.randrange(14300, 20000))
    b = rng.choice([0.5, 0.25, 0.75, 1e-10, 1e300, 3.0, math.ldexp(1.0, -1074), float(1 << 600)])
    return sgn * x, b, None


def main(args):
    ck = Check("C09", args.tier, args.seed)
    cls = draft_classes()
    ob = Observer(cls)
    quick = args.tier == "quick"
    ck.rule = ("(instance, bound) pairs = reachable states of spec/mc/MC_C09 (numbers with <= 2 set bits over an exponent "
               "set reaching subnormals, 2^53, 2^1024, 2^1200%s; both signs; int/float representations) x 9 keyword "
               "forms (incl. maximum next to a far exclusiveMaximum and minimum next to a far exclusiveMinimum in drafts 6/7) x 4 drafts; plus seeded random pairs from 10 families (random doubles, exact float multiples, "
               "power-of-two divisors, integer divisors, witnessed huge integers, 2^53 neighbourhood, subnormals, zeros, "
               "dense integers, huge-int/float) validated by Trace_C09. Non-trivial: both operands non-zero; distinct by "
               "(txt(x), txt(b))." % (", 2^15000" if quick else ", 2^10000, 2^15000"))
    r = tlc.run("mc/MC_C09.tla", cfg="mc/MC_C09_%s.cfg" % args.tier, workers=16, timeout=3000)
    if r.violation:
        raise tlc.MachineryFailure("spec-level law violated in MC_C09: " + r.violation)
    ck.add_tlc(r)
    for ex in r.exports:
        x, b = dec(ex["x"]), dec(ex["b"])
        obs, exc = ob.observe(x, b)
        ck.replayed += 1
        ck.count((txt(x), txt(b)), x != 0 and b != 0)
        want = [ex["min"], ex["minx"], ex["max"], ex["maxx"]]
        for j in range(4):
            col = [o[j] for o in obs]
            if any(c != want[j] for c in col):
                ck.violation(FORMS[j], {"x": txt(x), "b": txt(b), "beyond_int_str_limit": beyond_limit(x) or beyond_limit(b), "expected": want[j], "observed_per_draft": col,
                                        "exceptions": exc, "source": "MC_C09"})
        for j, key in ((5, "maxp"), (6, "minp"), (7, "minx"), (8, "maxx")):
            col = [o[j] for o in obs if o[j] != "n/a"]
            if any(c != ex[key] for c in col):
                ck.violation(FORMS[j], {"x": txt(x), "b": txt(b), "beyond_int_str_limit": beyond_limit(x) or beyond_limit(b), "expected": ex[key], "observed_per_draft": col,
                                        "exceptions": exc, "source": "MC_C09"})
        col = [o[4] for o in obs]
        m = ex["mult"]
        if m == "undecided":
            ck.skipped += 1
            allowed = {"valid", "invalid"}
        elif m == "any":
            allowed = {"valid", "invalid"}
        else:
            allowed = {m}
        if any(c not in allowed for c in col):
            ck.violation("multipleOf" if "raise" not in col else "multipleOf_raises",
                         {"x": txt(x), "b": txt(b), "beyond_int_str_limit": beyond_limit(x) or beyond_limit(b), "expected": sorted(allowed), "observed_per_draft": col,
                          "exceptions": exc, "source": "MC_C09"})
        if m in ("valid",) and isinstance(x, float) and x != 0:
            ck.sample({"x": txt(x), "b": txt(b), "beyond_int_str_limit": beyond_limit(x) or beyond_limit(b), "spec": {k: ex[k] for k in ("min", "minx", "max", "maxx", "mult")},
                       "observed": obs[3]})
    ck.exhaustive = True

    n = 4000 if quick else 120000
    recs, real = [], {}
    for i in range(n):
        x, b, w = rand_case(ck.rng)
        obs, exc = ob.observe(x, b)
        try:
            rec = {"id": i, "x": enc(x), "b": enc(b), "obs": obs, "hasw": w is not None,
                   "k": encode._bits_of_int(w[0]) if w else [], "r": encode._bits_of_int(w[1]) if w else []}
        except encode.Unencodable:
            ck.skipped += 1
            continue
        recs.append(rec)
        real[i] = {"x": txt(x), "b": txt(b), "beyond_int_str_limit": beyond_limit(x) or beyond_limit(b), "observed_per_draft": obs, "exceptions": exc, "forms": FORMS}
        ck.count((txt(x), txt(b)), x != 0 and b != 0)
    bad, states = tlc.validate_trace("trace/Trace_C09.tla", recs, "c09", shards=16, heap="4g")
    ck.states += states
    ck.transitions += states
    ck.validated += len(recs)
    for bd in bad:
        for clause in bd["clauses"]:
            if clause.startswith("~"):
                if clause == "~badwitness":
                    raise tlc.MachineryFailure("harness produced a wrong division witness for %r" % real[bd["id"]])
                ck.skipped += 1
                continue
            ck.violation(clause, dict(real[bd["id"]], source="Trace_C09", clause=clause))
    return ck.finish()
