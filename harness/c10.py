"""C10 - unknown, annotation and other-draft keywords never affect validation."""
import random

from harness import tlc, calibrate, errrec
from harness.common import Check, draft_classes, pmap, outcome_of
from harness.encode import dec, Unencodable
from harness.gen_schema import Gen
from harness.c05 import replay_one as replay_bag
from harness import c05

DRAFTS = (3, 4, 6, 7)
_CLS = None

ANNOT = ["title", "description", "default", "examples", "$comment", "definitions", "$schema", "readOnly", "writeOnly",
         "contentMediaType", "contentEncoding", "dependentRequired", "dependentSchemas", "unevaluatedProperties",
         "unevaluatedItems", "prefixItems", "minContains", "maxContains", "$defs", "$anchor", "$recursiveRef",
         "$dynamicRef", "$vocabulary", "x", "", "ref", "$Ref", "Type", "Items", "properties ", "ALLOF"]
ALLKW = ["type", "disallow", "extends", "enum", "const", "minimum", "maximum", "exclusiveMinimum", "exclusiveMaximum",
         "divisibleBy", "multipleOf", "minLength", "maxLength", "pattern", "minItems", "maxItems", "uniqueItems", "items",
         "additionalItems", "contains", "minProperties", "maxProperties", "required", "properties", "patternProperties",
         "additionalProperties", "propertyNames", "dependencies", "allOf", "anyOf", "oneOf", "not", "if", "then", "else"]
MAPKW = {"properties", "patternProperties", "dependencies", "definitions"}
SUBKW = {"items", "extends", "type", "disallow", "allOf", "anyOf", "oneOf", "additionalItems", "additionalProperties",
         "not", "contains", "propertyNames", "if", "then", "else"}


# names of later specifications (and of popular dialects) that refine a keyword of these drafts: placed NEXT TO that keyword
COMPANIONS = {"contains": ["minContains", "maxContains"], "items": ["prefixItems", "unevaluatedItems", "minContains"],
              "additionalItems": ["unevaluatedItems", "prefixItems"], "properties": ["unevaluatedProperties", "dependentRequired"],
              "additionalProperties": ["unevaluatedProperties"], "dependencies": ["dependentRequired", "dependentSchemas"],
              "type": ["nullable", "Type"], "enum": ["enumNames", "const"], "format": ["formatMinimum", "formatMaximum"],
              "$ref": ["$recursiveRef", "$dynamicRef", "$anchor"], "required": ["dependentRequired"],
              "minimum": ["exclusiveMinimum"], "maximum": ["exclusiveMaximum"], "pattern": ["flags", "regexp"],
              "uniqueItems": ["uniqueKeys"], "if": ["elif", "elseIf"]}


def at_path(S, path):
    for k in path:
        S = S[k]
    return S


def foreign_names(d):
    kws = errrec.keywords(d)
    out = [n for n in ANNOT + ALLKW + ["id" if d >= 6 else "$id"] if n not in kws and n != "required"]
    if d == 7:
        out = [n for n in out if n not in ("then", "else")]
    if d <= 4:
        out = [n for n in out if n not in ("exclusiveMinimum", "exclusiveMaximum")]
    return out


def schema_positions(S, path=()):
    """paths of the (sub)schema objects of S (mirror of Trace_Errors!Inserted, which TLC re-checks)"""
    out = []
    if not isinstance(S, dict):
        return out
    out.append(path)
    for k, v in S.items():
        if k in MAPKW and isinstance(v, dict):
            for n, sub in v.items():
                if isinstance(sub, dict):
                    out += schema_positions(sub, path + (k, n))
        elif k in SUBKW:
            if isinstance(v, dict):
                out += schema_positions(v, path + (k,))
            elif isinstance(v, list):
                for i, sub in enumerate(v):
                    if isinstance(sub, dict):
                        out += schema_positions(sub, path + (k, i))
    return out


def insert_at(S, path, name, val):
    if not path:
        out = dict(S)
        if name in out:
            return S
        items = list(out.items())
        return dict(items + [(name, val)])
    k = path[0]
    if isinstance(S, dict):
        return {kk: (insert_at(v, path[1:], name, val) if kk == k else v) for kk, v in S.items()}
    return [insert_at(v, path[1:], name, val) if i == k else v for i, v in enumerate(S)]


_DERIVED = []


def _cls():
    """the four stock classes -- after, once per process, dialects were DERIVED from each of them in which the other
    drafts' keywords do mean something (extend() with the functions the other drafts use, and a sibling from create()
    on the same metaschema): the stock classes go on ignoring what their draft does not define"""
    global _CLS
    if _CLS is None:
        _CLS = draft_classes()
        js = __import__("jsonschema")
        for d, cls in sorted(_CLS.items()):
            foreign = {}
            for d2, other in sorted(_CLS.items()):
                for k, fn in other.VALIDATORS.items():
                    if k not in cls.VALIDATORS:
                        foreign.setdefault(k, fn)
            if foreign:
                ext = js.validators.extend(cls, validators=foreign)
                both = dict(cls.VALIDATORS)
                both.update(foreign)
                sib = js.validators.create(meta_schema=cls.META_SCHEMA, validators=both, type_checker=cls.TYPE_CHECKER, id_of=cls.ID_OF)
                for c in (ext, sib):
                    try:    # the derived dialects are used once, so that whatever they set up lazily exists
                        list(c({"const": 1, "contains": {}, "if": {}, "divisibleBy": 2, "propertyNames": {}}).iter_errors([3]))
                    except Exception:  # noqa -- their behaviour is not under test here
                        pass
                _DERIVED.extend([ext, sib])
    return _CLS


def record_one(task):
    i, d, seed = task
    rng = random.Random(seed)
    g = Gen(rng, d)
    S = g.schema()
    if not isinstance(S, dict):
        return []
    cls = _cls()[d]
    if outcome_of(lambda: cls.check_schema(S))[0] != "ok":
        return []
    names = foreign_names(d)
    S2 = S
    pos = schema_positions(S)
    for _ in range(rng.randrange(1, 4)):
        val = rng.choice([None, True, False, 0, 1, 2, -1, "a", [], ["a"], {}, {"type": "integer"}, {"a": ["b"]}, g.json_value(2), g.schema(1)])
        where, name = rng.choice(pos), rng.choice(names)
        comp = [c for k in at_path(S2, where) if k in COMPANIONS for c in COMPANIONS[k] if c in names or c not in ALLKW]
        if comp and rng.random() < 0.4:
            name = rng.choice(comp)
        S2 = insert_at(S2, where, name, val)
        if name == "if" and d < 7:      # an other-draft keyword together with the siblings it would consult
            never = {"disallow": "any"} if d == 3 else {"not": {}}
            S2 = insert_at(S2, where, "then", rng.choice([never, {}]))
            S2 = insert_at(S2, where, "else", rng.choice([never, {"type": "string"}]))
    if rng.random() < 0.15:            # a (sub)schema decorated with more members than any keyword table has entries
        where = rng.choice(pos)
        for n in range(40):
            S2 = insert_at(S2, where, "x-ext-%02d" % n, rng.choice([n, "v", None, {"type": "null"}]))
    if S2 == S and list(S2) == list(S):
        return []
    out = []
    for j in range(3):
        I = g.instance(S)
        try:
            rec, plain = errrec.make_record(i * 3 + j, d, cls, S, I, alt=S2)
            out.append((rec, S, S2, I, plain))
        except Unencodable:
            pass
        except Exception as e:
            out.append(("raised", S, S2, I, type(e).__name__))
    return out


def main(args):
    ck = Check("C10", args.tier, args.seed)
    quick = args.tier == "quick"
    ck.rule = ("spec side: TLC checks the action property C10Step (an AddForeign step leaves the error bag of every instance "
               "unchanged) on the SchemaBuilder machine with foreign names = annotations, other-draft keywords, later-spec "
               "keywords and arbitrary names outside the draft's vocabulary and consulted siblings, and exports the expected "
               "bag of every extended schema, replayed against iter_errors. code side: random deep schemas with 1-3 foreign "
               "keywords inserted at random (sub)schema positions; the errors before and after are recorded and TLC checks "
               "that the second schema is an insertion of inert members and that the bags are equal; the id/$id half: Extract-machine scenarios with the other drafts' id keyword between the root id and a relative reference. Non-trivial: the "
               "instance yields at least one error; distinct by (draft, schema, extended schema, instance).")
    c05._INST = None

    def handle(t, probs):
        d, S, exp = t
        ck.replayed += 1
        for i, x in enumerate(exp):
            if not x["ood"]:
                ck.count((d, repr(S), i), bool(x["errs"]))
        for kind, i, got, want in probs:
            if kind == "not_accepted":
                ck.skipped += 1
                continue
            if kind == "raises":      # the schema without the foreign keyword validates fine: a crash is a behaviour change
                ck.violation("foreign_keyword_makes_validation_raise", {"draft": d, "schema": S, "exception": got,
                                                                        "instance": c05._INST[i] if i is not None else None})
                continue
            ck.violation("foreign_changes_errors", {"draft": d, "schema": S, "instance": c05._INST[i], "observed_errors": got,
                                                    "spec_errors": want, "source": "MC_Schema foreign export"})
    tasks = c05.run_universe(ck, args, "foreign" if quick else "foreignT", handle)
    tasks += c05.run_universe(ck, args, "refsib", handle)      # keywords next to a $ref (incl. "$ref": "" and "#")
    # second half of the property: `id` establishes a base URI only in drafts 3/4 and `$id` only in drafts 6/7 -- the
    # Extract machine's arrangement "otherid" puts the OTHER id keyword between the root and a relative reference
    from harness import c02, calibrate as _cal
    from harness.encode import dec as _dec, dec_str as _dec_str
    c02._setup()
    wd = tlc.workdir("c10ref")
    lib = _cal.write_lib(wd + "/lib.json")
    jobs = [dict(module="mc/MC_Ref.tla", cfg="mc/MC_Ref_otherid_d%d.cfg" % d, workers=4, timeout=3000, heap="4g",
                 env={"LIB_FILE": lib}) for d in DRAFTS]
    results = tlc.run_many(jobs, parallel=4)
    tlc.cleanup("c10ref")
    for job, r in zip(jobs, results):
        if r.violation:
            raise tlc.MachineryFailure("the specification itself is not transparent: %s %s" % (job["cfg"], r.violation))
        ck.add_tlc(r)
        d = int(job["cfg"].split("_d")[1][0])
        for ex in r.exports:
            if "instances" in ex:
                c02._INST = [_dec(x) for x in ex["instances"]]
                continue
            probs, _ = c02.replay_one((d, ex))
            ck.replayed += 1
            ck.count((d, "otherid", repr(ex["S"])), True)
            for kind, i, info in probs:
                ck.violation("other_drafts_id_keyword_changes_base", {"draft": d, "schema": _dec(ex["S"]),
                             "store": {_dec_str(m["u"]): _dec(m["doc"]) for m in ex["more"]}, "instance": c02._INST[i],
                             "problem": kind, "observed": info, "source": "MC_Ref otherid"})
    ck.exhaustive = True
    ck.sample({"universe_schema_with_foreign_keyword": tasks[len(tasks) // 2][1], "draft": tasks[len(tasks) // 2][0]})

    n = 2000 if quick else 50000
    outs = pmap(record_one, [(i, DRAFTS[i % 4], args.seed * 1000003 + i) for i in range(n)], chunk=16)
    recs, real = [], {}
    for o in outs:
        for x in o:
            if x[0] == "raised":
                ck.skipped += 1
                continue
            rec, S, S2, I, plain = x
            recs.append(rec)
            real[rec["id"]] = {"draft": rec["d"], "schema": S, "schema_with_foreign": S2, "instance": I, "errors_before": plain}
            ck.count((rec["d"], repr(S), repr(S2), repr(I)), bool(plain))
            if len(ck.samples) < 3 and plain:
                ck.sample(real[rec["id"]])
    # the OTHER drafts' identifier keyword carrying a plain name ("#item"): it names nothing in this draft, so a
    # reference "#item" / "#/item" keeps designating what it designated before the keyword was inserted
    rid = 10 ** 7
    for d in DRAFTS:
        other_id = "$id" if d <= 4 else "id"
        for ref in ("#item", "#/item", "#/definitions/item"):
            S = {"properties": {"p": {"$ref": ref}, "q": {"type": "integer"}}, "item": {"type": "string"},
                 "definitions": {"item": {"type": "null"}, "other": {"minimum": 3}}}
            for where in (("properties", "q"), ("definitions", "other"), ()):
                S2 = insert_at(S, where, other_id, "#item")
                for I in ({"p": 1, "q": "x"}, {"p": "s", "q": 1}, {"p": None}):
                    rid += 1
                    try:
                        rec, plain = errrec.make_record(rid, d, _cls()[d], S, I, alt=S2)
                    except Exception as e:  # noqa
                        ck.violation("foreign_keyword_makes_validation_raise", {"draft": d, "schema": S, "schema_with_foreign": S2,
                                                                                "instance": I, "exception": "%s: %s" % (type(e).__name__, str(e)[:100])})
                        continue
                    recs.append(rec)
                    real[rid] = {"draft": d, "schema": S, "schema_with_foreign": S2, "instance": I, "errors_before": plain}
                    ck.count((d, repr(S), repr(S2), repr(I)), bool(plain))
    # the other drafts' id keyword (or an annotation holding a mapping with an id) naming an absolute URI that a reference
    # elsewhere uses and the caller's store serves: the reference keeps designating the stored document
    U = "http://x.invalid/u.json"
    for d in DRAFTS:
        other_id = "$id" if d <= 4 else "id"
        S = {"properties": {"p": {"$ref": U}, "q": {"type": "integer"}}, "definitions": {"other": {"minimum": 3}}}

        def resolver_for(schema, d=d):
            return __import__("jsonschema").RefResolver.from_schema(schema, id_of=_cls()[d].ID_OF, store={U: {"type": "string"}})
        alts = [insert_at(S, ("properties", "q"), other_id, U), insert_at(S, ("definitions", "other"), other_id, U),
                insert_at(S, (), "default", {"$id": U, "id": U, "type": "integer"}),
                insert_at(S, ("properties", "q"), "examples", [{"$id": U, "id": U, "type": "null"}])]
        for S2 in alts:
            for I in ({"p": 1, "q": "x"}, {"p": "s", "q": 1}):
                rid += 1
                try:
                    rec, plain = errrec.make_record(rid, d, _cls()[d], S, I, alt=S2, resolver_for=resolver_for)
                except Exception as e:  # noqa
                    ck.violation("foreign_keyword_makes_validation_raise", {"draft": d, "schema": S, "schema_with_foreign": S2,
                                                                            "instance": I, "exception": "%s: %s" % (type(e).__name__, str(e)[:100])})
                    continue
                from harness.encode import enc, enc_str
                rec["more"] = [{"u": enc_str(U), "doc": enc({"type": "string"})}]
                recs.append(rec)
                real[rid] = {"draft": d, "schema": S, "schema_with_foreign": S2, "store": {U: {"type": "string"}}, "instance": I, "errors_before": plain}
                ck.count((d, repr(S2), repr(I), "store"), bool(plain))
    # keywords next to $ref are ignored by every validator class, also one obtained from extend()
    import jsonschema.validators as V
    for d in DRAFTS:
        base, ext = _cls()[d], V.extend(_cls()[d])
        for sib in ({"type": "integer"}, {"enum": [1]}, {"minimum": 10}, ({"disallow": "any"} if d == 3 else {"not": {}})):
            S = {"properties": {"p": dict({"$ref": "#/definitions/s"}, **sib)}, "definitions": {"s": {"type": "string"}}}
            for I in ({"p": "x"}, {"p": 1}, {"p": 20}):
                a = outcome_of(lambda: sorted(errrec.canon_obs(errrec.obs_err(e)) for e in base(S).iter_errors(I)))
                b = outcome_of(lambda: sorted(errrec.canon_obs(errrec.obs_err(e)) for e in ext(S).iter_errors(I)))
                ck.count((d, repr(S), repr(I), "extended"), True)
                if a != b:
                    ck.violation("foreign_changes_errors", {"draft": d, "schema": S, "instance": I, "class": "extend(Draft%dValidator)" % d,
                                                            "observed_errors": repr(b)[:300], "errors_before": repr(a)[:300],
                                                            "note": "keywords next to $ref must stay inert for classes obtained from extend()"})
    # the other drafts' identifier keyword at the root of a RETRIEVED document: it names nothing there either
    import copy
    from harness import tracing
    js = __import__("jsonschema")
    A, B = "http://x.invalid/a.json", "http://x.invalid/b.json"
    for d in DRAFTS:
        other_id = "$id" if d <= 4 else "id"
        S = {"properties": {"p": {"$ref": A}, "q": {"$ref": B}, "r": {"$ref": A + "#/definitions/n"}}}
        base_docs = {A: {"type": "integer", "definitions": {"n": {"type": "null"}}}, B: {"type": "string"}}
        for where in ((), ("definitions", "n")):
            alt_docs = copy.deepcopy(base_docs)
            alt_docs[A] = insert_at(alt_docs[A], where, other_id, B)
            for I in ({"p": 1, "q": "s"}, {"p": "x", "q": 1, "r": 0}, {"q": 5, "p": 2}, {"r": None, "q": "t"}):
                outs = []
                for docs in (base_docs, alt_docs):
                    h = tracing.CountingHandler(docs)
                    res = js.RefResolver.from_schema(copy.deepcopy(S), id_of=_cls()[d].ID_OF, handlers={"http": h})
                    outs.append(outcome_of(lambda: sorted(errrec.canon_obs(errrec.obs_err(e)) for e in _cls()[d](S, resolver=res).iter_errors(I))))
                ck.count((d, "remote", repr(where), repr(I)), True)
                if outs[0] != outs[1]:
                    ck.violation("foreign_changes_errors", {"draft": d, "schema": S, "retrieved_documents": base_docs,
                                                            "retrieved_documents_with_foreign": alt_docs, "instance": I,
                                                            "observed_errors": repr(outs[1])[:300], "errors_before": repr(outs[0])[:300]})
    wd = tlc.workdir("c10lib")
    lib = calibrate.write_lib(wd + "/lib.json")
    bad, states = tlc.validate_trace("trace/Trace_Errors.tla", recs, "c10", shards=16, env={"LIB_FILE": lib})
    tlc.cleanup("c10lib")
    ck.states += states
    ck.transitions += states
    ck.validated += len(recs)
    for b in bad:
        for clause in b["clauses"]:
            if clause == "~c10:notinsertion":
                raise tlc.MachineryFailure("harness inserted at a non-schema position or a non-inert name: %r" % real[b["id"]])
            if clause == "~c10:spec_changed":
                raise tlc.MachineryFailure("the specification itself changes under a foreign keyword: %r" % real[b["id"]])
            if clause.startswith("~"):
                ck.skipped += 1
            elif clause.startswith("c10:"):
                ck.violation(clause, dict(real[b["id"]], source="Trace_Errors", clause=clause))
    return ck.finish()
