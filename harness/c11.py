"""C11 - check_schema accepts exactly what the draft's metaschema allows."""
import random

from harness import tlc, calibrate
from harness.common import Check, draft_classes, pmap, outcome_of
from harness.encode import enc, dec, Unencodable
from harness.gen_schema import Gen

DRAFTS = (3, 4, 6, 7)
_CLS = None
SHAPES = [None, True, False, 0, 1, -1, 2, 1.5, 1.0, 2 ** 1400, 1e308, "", "a", "^a", "integer", "any", "foo", [], [{}],
          [{}, {}], [True], ["a"], ["a", "b"], ["a", "a"], [1], ["integer", "string"], {}, {"a": {}}, {"a": True},
          {"a": ["b"]}, {"a": "b"}, {"a": 1}, {"type": "integer"}, [{"minimum": 1}, {"minimum": 1.0}], [[1], [1.0]], [{"a": 0}, {"a": -0.0}],
          [{"divisibleBy": 2}, "null", {"divisibleBy": 2.0}], [1, 1.0], [True, 1]]


def _cls():
    global _CLS
    if _CLS is None:
        _CLS = draft_classes()
    return _CLS


def classify_check_schema(d, S):
    js_exc = __import__("jsonschema").exceptions
    try:
        _cls()[d].check_schema(S)
        return "ok", ""
    except js_exc.SchemaError as e:
        return "schemaerror", e.message[:120]
    except BaseException as e:  # noqa
        if isinstance(e, (KeyboardInterrupt, SystemExit)):
            raise
        return "other", "%s: %s" % (type(e).__name__, str(e)[:120])


def replay_one(task):
    d, S, acc = task
    return classify_check_schema(d, S)


TUPLE_CANDS = [{"type": ("string", "null")}, {"enum": (1, 2)}, {"items": ({"type": "integer"},)},
               {"required": ("a", "b")}, {"allOf": ({},)}, {"properties": {"a": {"enum": (1,)}}}]


def _after_derivation(tasks):
    """in a fresh process: derive a registered dialect from every draft class (extend(version=...) re-binds the draft's
    metaschema id to the new class) whose arrays admit tuples, give it a much laxer metaschema with the same id, then ask
    the ORIGINAL classes.  Candidates written with tuples (no JSON arrays for the stock classes) are asked before and
    after."""
    import copy
    import jsonschema
    from jsonschema import validators
    before = [[classify_check_schema(d, S) [0] for S in TUPLE_CANDS] for d in DRAFTS]
    for d, cls in _cls().items():
        derived = validators.extend(cls, validators={"x-lax": lambda *a: iter(())}, version="verif-lax-%d" % d,
                                    type_checker=cls.TYPE_CHECKER.redefine("array", lambda c, x: isinstance(x, (list, tuple))))
        lax = {k: copy.deepcopy(v) for k, v in cls.META_SCHEMA.items() if k in ("id", "$id", "$schema", "type")}
        derived.META_SCHEMA = lax
        derived.check_schema({"properties": {"a": {"minLength": "three"}}})       # the dialect itself is in use
    after = [[classify_check_schema(d, S)[0] for S in TUPLE_CANDS] for d in DRAFTS]
    return [classify_check_schema(d, S) for d, S, acc in tasks], before, after


def after_derivation(tasks):
    import multiprocessing
    from concurrent.futures import ProcessPoolExecutor
    with ProcessPoolExecutor(max_workers=1, mp_context=multiprocessing.get_context("spawn")) as ex:
        return ex.submit(_after_derivation, tasks).result()


def mutate_shapes(rng, S, n):
    """replace/insert shape values at random positions of a JSON tree"""
    import copy
    S = copy.deepcopy(S)
    for _ in range(n):
        node, depth = S, 0
        while True:
            if isinstance(node, dict) and node and (rng.random() < 0.7 or depth == 0):
                k = rng.choice(list(node))
                if isinstance(node[k], (dict, list)) and node[k] and rng.random() < 0.6:
                    node, depth = node[k], depth + 1
                    continue
                node[k] = copy.deepcopy(rng.choice(SHAPES))
                break
            if isinstance(node, list) and node:
                i = rng.randrange(len(node))
                if isinstance(node[i], (dict, list)) and node[i] and rng.random() < 0.6:
                    node, depth = node[i], depth + 1
                    continue
                node[i] = copy.deepcopy(rng.choice(SHAPES))
                break
            if isinstance(node, dict):
                node[rng.choice(["type", "items", "properties", "required", "enum", "minimum", "dependencies"])] = copy.deepcopy(rng.choice(SHAPES))
            break
    return S


def record_one(task):
    i, d, seed = task
    rng = random.Random(seed)
    g = Gen(rng, d, maxdepth=3)
    S = g.schema()
    if rng.random() < 0.85:
        S = mutate_shapes(rng, S, rng.randrange(1, 4))
    if isinstance(S, dict) and rng.random() < 0.3:
        # the candidate declares a dialect of its own -- this class's metaschema still decides ($schema is just a string)
        from harness.calibrate import META_IDS
        S = dict(S)
        S["$schema"] = rng.choice([META_IDS[x] for x in DRAFTS if x != d] + [META_IDS[d], "http://x.invalid/other"]) + rng.choice(["", "#"])
    out, info = classify_check_schema(d, S)
    try:
        return ({"id": i, "kind": "accept", "d": d, "S": enc(S), "out": out}, S, info)
    except Unencodable:
        return None


def main(args):
    ck = Check("C11", args.tier, args.seed)
    quick = args.tier == "quick"
    ck.rule = ("candidates = reachable states of spec/mc/MC_Shape (every keyword of the draft x a pool of JSON shapes, "
               "well-formed and malformed; one level down inside properties/items/definitions/dependencies/allOf/not/...; "
               "non-object candidates; thorough: pairs inside families and the full shape pool); TLC evaluates the bundled "
               "metaschema (as found in the working tree) on each candidate with the draft's own semantics and exports "
               "the acceptance bit, replayed into check_schema. Plus random deep schemas with 1-3 shape mutations at "
               "random depths (30 % declaring another draft in their own $schema), judged by TLC (Trace_Outcome); nested universe candidates are asked again, in a fresh process, "
               "after a laxer dialect has been derived from each class and registered under the same metaschema id. Non-trivial: candidate is an object with a keyword of the "
               "draft; distinct by (draft, candidate).")
    wd = tlc.workdir("c11lib")
    lib = calibrate.write_lib(wd + "/lib.json")
    jobs = [dict(module="mc/MC_Shape.tla", cfg="mc/MC_Shape_%s_d%d.cfg" % (args.tier, d), workers=4, timeout=7000,
                 heap="5g", env={"LIB_FILE": lib}) for d in DRAFTS]
    results = tlc.run_many(jobs, parallel=4)
    tasks = []
    for job, r in zip(jobs, results):
        d = int(job["cfg"].split("_d")[1][0])
        if r.violation:
            ck.violation("metaschema_rejects_itself" if "MetaAcceptsItself" in r.violation else "spec_law",
                         {"draft": d, "tlc": r.violation})
        ck.add_tlc(r)
        for ex in r.exports:
            if "instances" in ex:
                continue
            tasks.append((d, dec(ex["S"]), ex["acc"]))
    outs = pmap(replay_one, tasks, chunk=64)
    nacc = 0
    for (d, S, acc), (out, info) in zip(tasks, outs):
        ck.replayed += 1
        nacc += bool(acc)
        ck.count((d, repr(S)), isinstance(S, dict) and bool(S))
        case = {"draft": d, "candidate": S, "metaschema_accepts(spec)": acc, "check_schema": out, "detail": info,
                "source": "MC_Shape"}
        if out == "other":
            ck.violation("raises_other", case)
        elif (out == "ok") != bool(acc):
            ck.violation("accept_mismatch", case)
        elif len(ck.samples) < 4 and isinstance(S, dict) and len(S) == 1 and not acc and ck.rng.random() < 0.01:
            ck.sample(case)
    ck.notes["universe_candidates_accepted"] = nacc
    ck.exhaustive = True
    # the verdict is the class's own bundled metaschema's, whatever dialects have been derived and registered since:
    # nested candidates (judged through the metaschema's "$ref": "#") asked again after such derivations
    nested = [t for t in tasks if isinstance(t[1], dict) and any(isinstance(v, (dict, list)) and v for v in t[1].values())]
    ck.rng.shuffle(nested)
    nested = nested[:4000 if quick else 60000]
    answers, before, after = after_derivation(nested)
    for di, d in enumerate(DRAFTS):
        for S, b, a in zip(TUPLE_CANDS, before[di], after[di]):
            ck.count((d, repr(S), "tuple-candidate"), True)
            if b != a:
                ck.violation("accept_mismatch_after_derivation", {
                    "draft": d, "candidate": repr(S), "check_schema_before": b, "check_schema": a,
                    "history": "a dialect whose arrays admit tuples was derived with extend(DraftNValidator, version=...) in between"})
    for (d, S, acc), (out, info) in zip(nested, answers):
        ck.count((d, repr(S), "after-derivation"), True)
        if out == "other" or (out == "ok") != bool(acc):
            ck.violation("accept_mismatch_after_derivation", {
                "draft": d, "candidate": S, "metaschema_accepts(spec)": acc, "check_schema": out, "detail": info,
                "history": "extend(DraftNValidator, version=...) registered under the draft's metaschema id, its META_SCHEMA "
                           "replaced by a lax one with the same id; then DraftNValidator.check_schema(candidate)"})
    ck.notes["asked_again_after_derivation"] = len(nested)
    # each bundled metaschema is accepted by its own class
    for d in DRAFTS:
        out, info = classify_check_schema(d, _cls()[d].META_SCHEMA)
        ck.count((d, "META_SCHEMA"), True)
        if out != "ok":
            ck.violation("metaschema_rejected_by_own_class", {"draft": d, "check_schema": out, "detail": info})

    n = 3000 if quick else 80000
    outs = pmap(record_one, [(i, DRAFTS[i % 4], args.seed * 1000003 + i) for i in range(n)], chunk=32)
    recs, real = [], {}
    for o in outs:
        if o is None:
            continue
        rec, S, info = o
        recs.append(rec)
        real[rec["id"]] = {"draft": rec["d"], "candidate": S, "check_schema": rec["out"], "detail": info}
        ck.count((rec["d"], repr(S)), True)
    bad, states = tlc.validate_trace("trace/Trace_Outcome.tla", recs, "c11", shards=16, env={"LIB_FILE": lib})
    tlc.cleanup("c11lib")
    ck.states += states
    ck.transitions += states
    ck.validated += len(recs)
    ck.notes["random_candidates_accepted"] = sum(1 for r in recs if r["out"] == "ok")
    for b in bad:
        for clause in b["clauses"]:
            if clause.startswith("~"):
                ck.skipped += 1
            elif clause.startswith("c11:"):
                ck.violation(clause[4:], dict(real[b["id"]], source="Trace_Outcome"))
    return ck.finish()
