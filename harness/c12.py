"""C12 - format is off unless a checker is given, and then follows the checker exactly."""
from harness import tlc
from harness.common import Check, import_lib, draft_classes
from harness.encode import dec_str

DRAFTS = (3, 4, 6, 7)
INST = {"null": None, "true": True, "int": 1, "float": 1.0, "arr": [1], "obj": {"a": 1}}      # 1 == True == 1.0 in Python, three JSON values


class Listed(Exception):
    pass


class ListedK(Listed, KeyError):        # a listed exception that is also a KeyError (a table lookup gone wrong)
    pass


class Unlisted(Exception):
    pass


class UnlistedT(Unlisted, TypeError):
    pass


class UnlistedV(Unlisted, ValueError):
    pass


class UnlistedK(Unlisted, LookupError):
    pass


class UnlistedKE(Unlisted, KeyError):
    pass


UNLISTED = [UnlistedT, UnlistedV, UnlistedK, UnlistedKE, Unlisted]      # what a custom function might plausibly raise


def schema_for(d, name):
    """{"format": name}, written directly (drafts 3, 6) or reached through a reference (drafts 4, 7): what the format
    function does -- also an exception it lets escape -- must come through a reference untouched"""
    if d in (4, 7):
        return {"$ref": "#/definitions/f", "definitions": {"f": {"format": name}}}
    return {"format": name}


def used_early(v):
    """a validator constructed before the registrations is also USED before them (on the probe strings)"""
    for warm in ["a@b", "ab", "1.2.3.4", "256.1.1.1", "2020-02-30", "", 1, None]:
        try:
            v.is_valid(warm)
        except Exception:  # noqa
            pass
    return v


def build_checker(js, base, regs, salt=0, before_regs=None):
    """a real checker object as the model's configuration says; returns (checker or None, raised exception objects);
    before_regs(checker) is called once the base checker exists and before any registration is made on it"""
    raised = {}
    if base == "none":
        if before_regs:
            before_regs(None)
        return None, raised
    if base == "default":
        fc = js.FormatChecker()
    elif base == "subset":
        fc = js.FormatChecker(formats=["email", "ipv4", "date"])
    elif base == "empty":
        fc = js.FormatChecker(formats=())
    else:
        fc = getattr(js, base + "_format_checker")
    if before_regs:
        before_regs(fc)
    for n, reg in enumerate(regs):
        beh = reg["beh"]
        if beh == "truthy":
            fc.checks(reg["name"])(lambda inst: "yes")
        elif beh == "falsy":
            fc.checks(reg["name"])(lambda inst: 0)
        elif beh == "intonly":
            fc.checks(reg["name"])(lambda inst: type(inst) is int)
        elif beh == "listed":
            def f1(inst, n=n):
                raised[n] = (ListedK if (n + salt) % 2 else Listed)("listed %d" % n)
                raise raised[n]
            fc.checks(reg["name"], raises=Listed)(f1)
        else:
            def f2(inst, n=n):
                raised[n] = UNLISTED[(n + salt) % 5]("unlisted %d" % n)
                raise raised[n]
            fc.checks(reg["name"], raises=Listed)(f2)
    return fc, raised


def main(args):
    ck = Check("C12", args.tier, args.seed)
    js = import_lib()
    cls = draft_classes()
    quick = args.tier == "quick"
    ck.rule = ("configurations = reachable states of spec/mc/MC_C12: base checker in {none, FormatChecker(), "
               "FormatChecker(formats=['email', 'ipv4', 'date']), FormatChecker(formats=()), draft3/draft4/draft7 checker objects} x <= %d "
               "registrations checker.checks(name, raises)(fn) with fn truthy / falsy / true for integers proper only / raising a listed / an unlisted exception, "
               "on a new name, on the empty name, or overriding a built-in, the validator constructed before or after them x probes (7 format names incl. unknown and empty x 12 "
               "instances of every JSON type incl. strings in and outside the built-in grammars); the expected outcome (pass / "
               "error without cause / error whose cause IS the raised exception / the exception escapes unchanged) is exported "
               "and replayed through validation in 4 drafts (on one reused validator per configuration that has already seen every probe instance) and through conforms(). Non-trivial: a checker is present and knows "
               "the name; distinct by (configuration, name, instance)." % (2 if quick else 3))
    r = tlc.run("mc/MC_C12.tla", cfg="mc/MC_C12_%s.cfg" % args.tier, workers=16, timeout=3000, coverage=True)
    if r.violation:
        raise tlc.MachineryFailure("format protocol model violated: " + r.violation)
    ck.add_tlc(r, "MC_C12")
    reused = {}
    for ex in r.exports:
        x = ex["x"]
        inst = dec_str(x["s"]) if x["k"] == "str" else INST[x["k"]]
        want = ex["out"]
        ck.replayed += 1
        ck.count((ex["base"], ex["early"], repr(ex["regs"]), ex["name"], repr(inst)), ex["base"] != "none" and want != "pass" or bool(ex["regs"]))
        for d in DRAFTS:
            # one validator object per (configuration, name, draft) for the whole run: it has seen every probe instance
            # (the integer first) before any result is looked at, and goes on being used
            key = (ex["base"], ex["early"], repr(ex["regs"]), ex["name"], d)
            if key not in reused:
                made = []
                fc, raised = build_checker(js, ex["base"], ex["regs"], salt=d + len(reused),
                                           before_regs=(lambda c: made.append(used_early(cls[d](schema_for(d, ex["name"]), format_checker=c)))) if ex["early"] else None)
                v = made[0] if ex["early"] else cls[d](schema_for(d, ex["name"]), format_checker=fc)
                for warm in [INST["int"], INST["true"], INST["float"], INST["null"], "a@b", "ab", [1], {"a": 1}]:
                    try:
                        v.is_valid(warm)
                    except Exception:  # noqa -- unlisted exceptions escape by design
                        pass
                reused[key] = (v, fc, raised)
            v, fc, raised = reused[key]
            got, detail = None, None
            try:
                errs = list(v.iter_errors(inst))
                if not errs:
                    got = "pass"
                elif len(errs) == 1 and errs[0].validator == "format":
                    e = errs[0]
                    if e.cause is None:
                        got = "error"
                    elif any(e.cause is ex_obj for ex_obj in raised.values()):
                        got = "error-cause"
                    else:
                        got = "error-builtin-cause"
                else:
                    got, detail = "other-errors", [e.message for e in errs]
            except Unlisted as e:
                got = "escape" if any(e is ex_obj for ex_obj in raised.values()) else "escape-other-object"
            except Exception as e:  # noqa
                got, detail = "raises:" + type(e).__name__, str(e)[:100]
            okay = (got == want) or (want == "error-builtin" and got in ("error", "error-builtin-cause")) or (want == "any" and got in ("pass", "error", "error-builtin-cause"))
            case = {"draft": d, "base_checker": ex["base"], "validator_constructed_before_registrations": ex["early"], "registrations": ex["regs"], "format": ex["name"], "instance": inst,
                    "model_outcome": want, "observed": got, "detail": detail, "source": "MC_C12"}
            if not okay:
                ck.violation("format_outcome", case)
            # conforms() agrees: an instance fails format exactly when conforms() is false
            if fc is not None and want not in ("escape",) and got not in (None,) and not str(got).startswith("raises"):
                try:
                    conf = fc.conforms(inst, ex["name"])
                    if conf != (got == "pass"):
                        ck.violation("conforms_disagrees_with_validation", dict(case, conforms=conf))
                except Unlisted:
                    ck.violation("conforms_raises", case)
            if d == 7 and len(ck.samples) < 3 and want in ("error-cause", "escape"):
                ck.sample(case)
    ck.exhaustive = True
    return ck.finish()
