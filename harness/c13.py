"""C13 - built-in format checkers decide their grammars exactly and never raise."""
import re

from harness import tlc
from harness.common import Check, import_lib
from harness.encode import enc_str, dec_str

GRAMMAR_OF = {"ipv4": "ipv4", "ip-address": "ipv4", "ipv6": "ipv6", "date": "date", "email": "email", "idn-email": "email"}
SEEDS = ["1.2.3.4", "::1", "fe80::1%eth0", "2020-02-29", "a@b", "2020-W01-1", "20200101", "1.2.3.04", "１.２.３.４", "a{99999999999}",
         "(" * 600 + ")" * 600, "a{" + "9" * 5000 + "}", "[", "\\", "xn--bcher-kva.example", "a" * 300, "", " ", "\n", "\x00", "\udc80", "٢٠٢٠-٠١-٠١",
         "23:59:60", "12:00:00", "1:2:3", "http://x", "é.com", "-a-.com", "a..b", "1" * 5000, "0x7f.1", "1e3.1.1.1", "::ffff:1.2.3.4",
         "::1.2.3", "1::2::3", ":::", "1:2:3:4:5:6:7:8:9", "2020-02-30T", "2020-2-1", "+020-01-01"]


def observe(js, fc, s, name):
    try:
        out = "true" if fc.conforms(s, name) else "false"
    except BaseException as e:  # noqa
        if isinstance(e, (KeyboardInterrupt, SystemExit)):
            raise
        out = type(e).__name__
    try:
        fc.check(s, name)
        chk = "ok"
    except js.exceptions.FormatError:
        chk = "formaterror"
    except BaseException as e:  # noqa
        if isinstance(e, (KeyboardInterrupt, SystemExit)):
            raise
        chk = type(e).__name__
    return out, chk


def rand_string(rng):
    k = rng.random()
    if k < 0.4:
        s = list(rng.choice(SEEDS))
        for _ in range(rng.randrange(1, 4)):
            op = rng.random()
            c = chr(rng.choice([48, 49, 57, 46, 58, 45, 64, 32, 37, 47, 97, 102, 103, 87, 84, 10, 0, 0x661, 0xFF11, 0xE9, 0x1F600, 40, 41, 123, 125, 92, 91]))
            if op < 0.4 or not s:
                s.insert(rng.randrange(len(s) + 1), c)
            elif op < 0.7:
                del s[rng.randrange(len(s))]
            else:
                s[rng.randrange(len(s))] = c
        return "".join(s)
    if k < 0.7:
        return "".join(chr(rng.choice([rng.randrange(32, 127), rng.randrange(0xA0, 0x800), rng.randrange(0x10000, 0x10400),
                                       rng.randrange(0, 32), 0xDC80, 0x200D])) for _ in range(rng.randrange(0, 12)))
    return rng.choice(["(" * rng.randrange(1, 1500), "a{%d}" % 10 ** rng.randrange(1, 30), "a{%s}" % ("9" * rng.randrange(1, 6000)),
                       "a{1,%s}" % ("7" * rng.randrange(4000, 5000)), "(?P<a>x)(?(%s)a|b)" % ("9" * rng.randrange(1, 5000)), "[" * rng.randrange(1, 50) + "a",
                       "%d:%d:%d" % (10 ** rng.randrange(1, 25), rng.randrange(0, 70), rng.randrange(0, 70)), "%d:%d" % (rng.randrange(0, 30), rng.randrange(0, 70)),
                       "%02d:%02d:%02d" % (rng.randrange(0, 30), rng.randrange(0, 70), rng.randrange(0, 70)), "1:2:3:4", "9" * rng.choice([3, 12, 25, 4400]) + ":" + "9" * rng.choice([1, 2, 12]) + ":00",
                       "1." * rng.randrange(1, 600), ":" * rng.randrange(1, 40), "9" * rng.randrange(1, 4000) + "-01-01",
                       "%d.%d.%d.%d" % tuple(rng.randrange(0, 400) for _ in range(4)),
                       ":".join("%x" % rng.randrange(0, 70000) for _ in range(rng.randrange(1, 10))),
                       "%04d-%02d-%02d" % (rng.randrange(0, 10000), rng.randrange(0, 14), rng.randrange(0, 33))])


def main(args):
    import warnings
    warnings.simplefilter("ignore")
    ck = Check("C13", args.tier, args.seed)
    js = import_lib()
    quick = args.tier == "quick"
    FC = js.FormatChecker
    checkers = {"FormatChecker()": FC(), "draft3": js.draft3_format_checker, "draft4": js.draft4_format_checker,
                "draft6": js.draft6_format_checker, "draft7": js.draft7_format_checker}
    ck.rule = ("grammar half: strings = reachable states of the mutation machine spec/mc/MC_C13 per format (ipv4, ipv6, date, "
               "email): every %s edit (insert / delete / substitute, over the grammar's own characters and intruders incl. "
               "non-ASCII digits, whitespace, %%, /, T, W, Z, newline) of valid and invalid seeds incl. the alternative ISO 8601 "
               "date spellings; the recogniser's verdict is exported and replayed through conforms() and check() of "
               "FormatChecker() and of every draft checker that registers the name. never-raises half: for EVERY name "
               "registered in this installation (%s), seeded near-miss / random Unicode / pathological strings (and 57 regular expressions on which a parser and the compiler may part) are recorded and "
               "judged by TLC (Trace_C13): conforms returns a boolean, check raises nothing but FormatError, both agree, and "
               "for names with a grammar the verdict equals the recogniser's. Non-trivial: non-empty string; distinct by "
               "(name, string)." % ("single" if quick else "single and double", ", ".join(sorted(FC.checkers))))
    fmts = ("ipv4", "ipv6", "date", "email")
    jobs = [dict(module="mc/MC_C13.tla", cfg="mc/MC_C13_%s_%s.cfg" % (args.tier, f), workers=4, timeout=7000, heap="4g") for f in fmts]
    results = tlc.run_many(jobs, parallel=4)
    for f, r in zip(fmts, results):
        if r.violation:
            raise tlc.MachineryFailure("recogniser sanity violated: %s %s" % (f, r.violation))
        ck.add_tlc(r)
        names = [n for n, g in GRAMMAR_OF.items() if g == f]
        # another checker OBJECT on which these names have been re-registered laxly has already judged (and accepted)
        # every string: what one checker object was taught is nobody else's business
        lax = FC()
        for name in names:
            lax.checks(name)(lambda inst: True)
        for ex in r.exports:
            s = dec_str(ex["s"])
            for name in names:
                lax.conforms(s, name)
            ck.replayed += 1
            ck.count((f, s), s != "")
            for cname, fc in checkers.items():
                for name in names:
                    if name not in fc.checkers:
                        continue
                    out, chk = observe(js, fc, s, name)
                    case = {"checker": cname, "format": name, "string": s, "grammar_accepts": ex["ok"], "conforms": out, "check": chk,
                            "source": "MC_C13"}
                    if out not in ("true", "false"):
                        ck.violation("conforms_raises", case)
                    elif chk not in ("ok", "formaterror"):
                        ck.violation("check_raises_other", case)
                    elif ex["claimed"] and (out == "true") != ex["ok"]:
                        ck.violation("grammar", case)
                    elif (out == "true") != (chk == "ok"):
                        ck.violation("conforms_disagrees_with_check", case)
            if len(ck.samples) < 4 and ex["ok"] and ck.rng.random() < 0.01:
                ck.sample({"format": f, "string": s, "grammar_accepts": True})
    ck.exhaustive = True
    # regex: "the strings the regular-expression engine can compile" -- the engine itself is the reference
    n = 3000 if quick else 60000
    recs, real = [], {}
    rid = 0
    # strings on which a regular-expression PARSER and the engine's compiler may part (the compiler is the reference):
    # look-behind bodies of variable width, group references, flags not at the start, bad ranges and repetitions
    regex_strings = ["(?<=a+)b", "(?<!a*)", "(?<=a|bc)d", "(?<=a{2,3})", "(?<=ab)c", "(?<!ab|cd)e", "(?<=(a))b\\1", "(a)(?<=\\1)",
                     "(?P<n>a)(?P=n)", "(?P<n>a)(?P<n>b)", "(?P=n)", "\\1", "(a)\\2", "(?i)a", "a(?i)", "(?i:a)b", "(?-i:a)", "[z-a]",
                     "a**", "a{2,1}", "a{,}", "(?(1)a|b)", "(a)?(?(1)b|c)", "(?(2)a)", "\\p{L}", "\\N{DASH}", "\\N{EM DASH}", "[[:alpha:]]",
                     "(?u)abc", "(?iu)^[a-z]+$", "(?x)(?u) a b c", "(?u)", "(?u:abc)", "(?a)abc", "(?au)x", "(?L)a", "(?s)(?u).", "a\\{99999999999\\}", "[^{99999999999}]+", "a{99999999999", "id{12345678901,x}", "a{00000000001}", "{12345678901}", "(?#", "(?#)", "\\", "a|*", "(?<n>a)", "(?P<1>a)", "\\8", "[\\d-a]", "(?s)(?m)", "x*+", "x{2}+", "(?>a)", "\x00", "a\ud800"]
    for i in range(n):
        s = regex_strings[i] if i < len(regex_strings) else rand_string(ck.rng)
        for cname, fc in checkers.items():
            names = sorted(fc.checkers)
            for name in (["regex"] + names if i < len(regex_strings) else names if i % 5 == 0 else [names[i % len(names)]]):
                if name not in fc.checkers:
                    continue
                out, chk = observe(js, fc, s, name)
                try:
                    rec = {"id": rid, "fmt": GRAMMAR_OF.get(name, "none"), "s": enc_str(s), "out": out, "chk": chk}
                except Exception:
                    continue
                recs.append(rec)
                real[rid] = {"checker": cname, "format": name, "string": s[:200], "length": len(s), "conforms": out, "check": chk}
                rid += 1
                ck.count((name, s), s != "")
                if name == "regex" and out in ("true", "false"):
                    try:
                        re.compile(s)
                        can = True
                    except BaseException:  # noqa
                        can = False
                    if can != (out == "true"):
                        ck.violation("regex_engine_disagrees", dict(real[rid - 1], engine_compiles=can))
    bad, states = tlc.validate_trace("trace/Trace_C13.tla", recs, "c13", shards=16)
    ck.states += states
    ck.transitions += states
    ck.validated += len(recs)
    for b in bad:
        for clause in b["clauses"]:
            ck.violation(clause, dict(real[b["id"]], source="Trace_C13"))
    return ck.finish()
