"""C14 - JSON-Pointer fragments resolve to exactly the addressed value, or fail cleanly."""
import random
from urllib.parse import quote

from harness import tlc
from harness.common import Check, draft_classes, import_lib
from harness.encode import enc, dec, enc_str, dec_str, Unencodable

DRAFTS = (3, 4, 6, 7)
HOSTILE = ["", "/", "~", "~0", "~1", "~01", "%", "%25", "#", "?", " ", '"', "\\", "é", "0", "01", "-1", "a/b", "a~b",
           "\U0001F600", "-", "+1", "a", "1", "~~11", "%2F", "a b", "٣", "x%y", "~/", "/~"]


_SHARED = {}


def resolve(js, doc, frag):
    # one resolver object serves every resolution of the run: resolve_fragment(document, fragment) is a function of its
    # arguments, whatever the resolver did before
    r = _SHARED.get("r")
    if r is None:
        r = _SHARED["r"] = js.RefResolver("", {})
    try:
        return "value", r.resolve_fragment(doc, frag)
    except js.exceptions.RefResolutionError:
        return "referror", None
    except BaseException as e:  # noqa
        if isinstance(e, (KeyboardInterrupt, SystemExit)):
            raise
        return "other", "%s: %s" % (type(e).__name__, str(e)[:80])


def rand_doc(rng, depth):
    x = rng.random()
    if depth <= 0 or x < 0.2:
        return rng.choice([1, "s", None, True, "012", {"enum": [rng.randrange(1000)]}])
    if x < 0.65:
        ks = rng.sample(HOSTILE, rng.randrange(1, 6))
        if rng.random() < 0.3:
            ks.append("".join(chr(rng.choice([47, 126, 37, 48, 49, 35, 63, 32, 233, 0x4e2d, 0x1F600, 97])) for _ in range(rng.randrange(1, 5))))
        return {k: rand_doc(rng, depth - 1) for k in ks}
    return [rand_doc(rng, depth - 1) for _ in range(rng.randrange(0, 4))]


def rand_fragment(rng, doc):
    """walk a random path; render it with an (untrusted) escaper; sometimes perturb the text"""
    toks = []
    node = doc
    while isinstance(node, (dict, list)) and node and rng.random() < 0.8:
        if isinstance(node, dict):
            k = rng.choice(list(node))
            toks.append(k)
            node = node[k]
        else:
            i = rng.randrange(len(node))
            toks.append(str(i))
            node = node[i]
    x = rng.random()
    if x < 0.25:
        toks.append(rng.choice(["-", "-1", "01", "+1", " 1", "1_0", "1.0", "٣", "zz", "", "0", str(len(node)) if isinstance(node, list) else "9", "~", "00"]))
    ptr = "".join("/" + t.replace("~", "~0").replace("/", "~1") for t in toks)
    if rng.random() < 0.08 and len(ptr) > 1:          # swapped escapes / raw text: TLC decides what it means
        ptr = ptr.replace("~0", "~1", 1) if rng.random() < 0.5 else ptr[1:]
    frag = quote(ptr, safe="/~!$&'()*+,;=:@?-._")
    if rng.random() < 0.05:
        frag = frag.replace("%", "%25", 1)
    return frag


def main(args):
    ck = Check("C14", args.tier, args.seed)
    js = import_lib()
    cls = draft_classes()
    quick = args.tier == "quick"
    ck.rule = ("positive and negative pointers = reachable states of the pointer-walk machine spec/mc/MC_C14 over two hostile "
               "documents (23 hostile keys at two levels, arrays, scalars; every location to depth %d; from every location "
               "every failing token: missing key, index = length, -, -1, 01, +1, ' 1', 1_0, 1.0, an index followed by LF / CR / NUL, non-ASCII digits, any "
               "token on a scalar or string), each replayed through RefResolver.resolve_fragment and, where the target "
               "is a leaf schema, through validation of {\"$ref\": \"#\"+fragment} in 4 drafts; plus random documents "
               "and fragments judged by TLC (Trace_C14), as are respellings of the universe's fragments (separators percent-encoded, a trailing '+' or non-ASCII digit). Non-trivial: fragment with >= 1 token; distinct by (doc, fragment)."
               % (3 if quick else 5))
    r = tlc.run("mc/MC_C14.tla", cfg="mc/MC_C14_%s.cfg" % args.tier, workers=16, timeout=3000, coverage=True)
    if r.violation:
        raise tlc.MachineryFailure("Pointer spec law violated: " + r.violation)
    ck.add_tlc(r, "MC_C14")
    docs = None
    for ex in r.exports:
        if "docs" in ex:
            docs = [dec(x) for x in ex["docs"]]
            continue
        doc = docs[ex["d"] - 1]
        frag = dec_str(ex["frag"])
        out, v = resolve(js, doc, frag)
        ck.replayed += 1
        ck.count((ex["d"], frag), frag != "")
        want = dec(ex["v"]) if ex["ok"] else None
        case = {"document_id": ex["d"], "fragment": frag, "expected": {"resolves": ex["ok"], "value": want},
                "observed": {"outcome": out, "value": v if out != "value" else v}, "source": "MC_C14"}
        if ex["ok"]:
            if out != "value":
                ck.violation("should_resolve" if out == "referror" else "raises_other", case)
            elif v != want or type(v) != type(want):
                ck.violation("wrong_value", case)
        else:
            if out == "value":
                ck.violation("should_fail", case)
            elif out == "other":
                ck.violation("raises_other", case)
        # through validation: {"$ref": "#/d" + fragment, "d": doc}
        is_leaf = ex["ok"] and isinstance(want, dict) and list(want) == ["enum"]
        if is_leaf or not ex["ok"]:
            for d in DRAFTS:
                schema = {"$ref": "#/d" + frag, "d": doc}
                val = cls[d](schema)
                try:
                    got = ("valid" if val.is_valid(want["enum"][0]) else "invalid", "valid" if val.is_valid("no such") else "invalid") if is_leaf else val.is_valid(1)
                    if is_leaf and got != ("valid", "invalid"):
                        ck.violation("ref_wrong_target", dict(case, draft=d, via="$ref validation", got=got))
                    if not is_leaf:
                        ck.violation("ref_should_fail", dict(case, draft=d, via="$ref validation", got=got))
                except js.exceptions.RefResolutionError:
                    if is_leaf:
                        ck.violation("ref_should_resolve", dict(case, draft=d, via="$ref validation"))
                except Exception as e:
                    ck.violation("ref_raises_other", dict(case, draft=d, via="$ref validation", exc=type(e).__name__))
        if len(ck.samples) < 4 and ck.rng.random() < 0.002:
            ck.sample(case)
    ck.exhaustive = True

    n = 3000 if quick else 100000
    recs, real = [], {}
    # other spellings of the universe's fragments, judged by TLC: separators written percent-encoded ("%2F", "%2f") --
    # all of them, only the first, only the last; "+" is a plain character (not a space); an index followed by a
    # non-ASCII digit is no index
    import copy
    rid = 10 * n
    for k, ex in enumerate(r.exports):
        if "docs" in ex or k % (3 if quick else 1):
            continue
        doc = docs[ex["d"] - 1]
        frag = dec_str(ex["frag"])
        if "/" not in frag:
            continue
        first, last = frag.index("/"), frag.rindex("/")
        for alt in {frag.replace("/", "%2F"), frag[:first] + "%2f" + frag[first + 1:], frag[:last] + "%2F" + frag[last + 1:],
                    frag + "+", frag + "\u0660", frag.replace("/", "/+", 1)}:
            out, v = resolve(js, doc, alt)
            try:
                rec = {"id": rid, "doc": enc(doc), "frag": enc_str(alt), "out": out, "v": enc(v) if out == "value" else {"t": "null"}}
            except Unencodable:
                continue
            recs.append(rec)
            real[rid] = {"document": doc, "fragment": alt, "respelling_of": frag, "observed": {"outcome": out, "value": copy.deepcopy(v)}}
            ck.count((ex["d"], alt), True)
            rid += 1
    # a long array: tokens that LOOK like an index beyond 9 (an ASCII digit followed by a digit of another script, by
    # a superscript, by a full-width digit) are no indices, however many elements there are
    long_doc = {"list": [{"n": k} for k in range(25)], "11": "an object member called 11"}
    for tok in ["1\u0660", "1\u0661", "2\u00b2", "1\uff10", "\u0661\u0660", "10", "24", "25", "011", "1 0", "1_0", "+10", "1e1", "0x0A", "١٠"]:
        for frag in ("/list/" + tok, "/list/" + tok + "/n", "/" + tok):
            out, v = resolve(js, long_doc, frag)
            try:
                rec = {"id": rid, "doc": enc(long_doc), "frag": enc_str(frag), "out": out, "v": enc(v) if out == "value" else {"t": "null"}}
            except Unencodable:
                continue
            recs.append(rec)
            real[rid] = {"document": long_doc, "fragment": frag, "observed": {"outcome": out, "value": copy.deepcopy(v)}}
            ck.count(("long", frag), True)
            rid += 1
    # documents whose objects are mappings that are no dicts (read-only proxies, UserDict): an object is an object --
    # members called "0", "200" are looked up by name, never turned into indices
    import types
    import collections

    def as_proxy(x, kind):
        if isinstance(x, dict):
            inner = {k: as_proxy(v, kind) for k, v in x.items()}
            return types.MappingProxyType(inner) if kind == "proxy" else collections.UserDict(inner)
        if isinstance(x, list):
            return [as_proxy(v, kind) for v in x]
        return x
    plain = {"responses": {"200": {"enum": [1]}, "0": 5, "1": {"0": "deep"}}, "list": [{"0": "in array"}, 7]}
    for kind in ("proxy", "userdict"):
        pdoc = as_proxy(plain, kind)
        for frag in ("/responses/200", "/responses/0", "/responses/1/0", "/responses/2", "/list/0/0", "/list/1", "/list/0/1", "/responses/01", "/0"):
            out, v = resolve(js, pdoc, frag)

            def plainify(y):
                if isinstance(y, (types.MappingProxyType, collections.UserDict)):
                    return {k: plainify(z) for k, z in y.items()}
                if isinstance(y, list):
                    return [plainify(z) for z in y]
                return y
            try:
                rec = {"id": rid, "doc": enc(plain), "frag": enc_str(frag), "out": out, "v": enc(plainify(v)) if out == "value" else {"t": "null"}}
            except Unencodable:
                continue
            recs.append(rec)
            real[rid] = {"document": plain, "document_objects_are": kind, "fragment": frag, "observed": {"outcome": out, "value": repr(v)[:80]}}
            ck.count((kind, frag), True)
            rid += 1
    for i in range(n):
        doc = rand_doc(ck.rng, 3)
        frag = rand_fragment(ck.rng, doc)
        out, v = resolve(js, doc, frag)
        try:
            rec = {"id": i, "doc": enc(doc), "frag": enc_str(frag), "out": out, "v": enc(v) if out == "value" else {"t": "null"}}
        except Unencodable:
            continue
        recs.append(rec)
        import copy
        real[i] = {"document": copy.deepcopy(doc), "fragment": frag, "observed": {"outcome": out, "value": copy.deepcopy(v)}}
        ck.count((repr(doc), frag), frag != "")
        # history: the same document object is edited in place and the same fragment resolved again (same resolver)
        if isinstance(doc, (dict, list)) and doc and ck.rng.random() < 0.4:
            if isinstance(doc, dict):
                k = ck.rng.choice(list(doc))
                if ck.rng.random() < 0.5:
                    del doc[k]
                else:
                    doc[k] = {"edited": i}
            else:
                if ck.rng.random() < 0.5:
                    doc.pop()
                else:
                    doc[ck.rng.randrange(len(doc))] = {"edited": i}
            out2, v2 = resolve(js, doc, frag)
            try:
                rec2 = {"id": n + i, "doc": enc(doc), "frag": enc_str(frag), "out": out2,
                        "v": enc(v2) if out2 == "value" else {"t": "null"}}
                recs.append(rec2)
                real[n + i] = {"document": copy.deepcopy(doc), "fragment": frag, "history": "document edited in place after a first resolution",
                               "observed": {"outcome": out2, "value": copy.deepcopy(v2)}}
                ck.count((repr(doc), frag, "edited"), frag != "")
            except Unencodable:
                pass
    bad, states = tlc.validate_trace("trace/Trace_C14.tla", recs, "c14", shards=16)
    ck.states += states
    ck.transitions += states
    ck.validated += len(recs)
    for b in bad:
        for clause in b["clauses"]:
            if clause.startswith("~"):
                ck.skipped += 1
            else:
                ck.violation(clause, dict(real[b["id"]], source="Trace_C14"))
    return ck.finish()
