"""C15 - reference retrieval and caching are transparent, frugal and offline-safe."""
import glob
import os
import sys
from functools import lru_cache
from urllib.parse import urljoin

from harness import tlc, tracing
from harness.common import Check, draft_classes, import_lib, pmap

URL = {"r1": "http://x.invalid/r1.json", "r2": "http://x.invalid/r2.json", "s": "http://x.invalid/s.json",
       "t": "http://x.invalid/t.json", "meta": "http://json-schema.org/draft-07/schema"}
# r2 is a legal but falsy document; t is supplied in the store under a key with a trailing "#" (its own id); r1 DECLARES
# an id that is not where it was retrieved from (it names r2's URL): a document is known by its retrieval URL only
DOC = {"r1": {"$id": "http://x.invalid/r2.json", "id": "http://x.invalid/r2.json", "definitions": {"a": {"type": "integer"}}}, "r2": {},
       "s": {"definitions": {"a": {"type": "null"}}}, "t": {"$id": "http://x.invalid/t.json#", "definitions": {"a": {"type": "string"}}}}
PTR = {"r1": "#/definitions/a", "r2": "#/definitions/a", "s": "#/definitions/a", "t": "#/definitions/a",
       "meta": "#/definitions/nonNegativeInteger"}
BYURL = {v: k for k, v in URL.items()}
NETWORK = []


def url_of(doc, frag):
    return URL[doc] + {"none": "", "empty": "#", "ptr": PTR[doc], "bad": "#/nope/nothing"}[frag]


def make_resolver(js, cr, kind, hm):
    """a real RefResolver configured as the model's constants say; returns (resolver, handler)"""
    h = tracing.CountingHandler({URL[d]: DOC[d] for d in ("r1", "r2")})
    for d, mode in hm.items():
        if mode == "fail":
            h.failing.add(URL[d])
        elif mode == "failonce":
            h.fail_once.add(URL[d])
    holder = []

    def rc(url):
        return holder[0].resolve_from_url(url)
    kw = {}
    if kind == "pass":
        kw = dict(urljoin_cache=urljoin, remote_cache=rc)
    elif kind == "tiny":
        kw = dict(urljoin_cache=lru_cache(1)(urljoin), remote_cache=lru_cache(1)(rc))
    r = js.RefResolver("http://x.invalid/root.json", {}, store={URL["s"]: DOC["s"], URL["t"] + "#": DOC["t"]}, cache_remote=cr,
                       handlers={"http": h, "https": h}, **kw)
    holder.append(r)
    return r, h


def stub_network(js):
    import jsonschema.validators as V
    from urllib.error import URLError
    sys.modules["requests"] = None

    def no_network(*a, **k):
        NETWORK.append(a)
        raise URLError("network access is stubbed out by the verification harness")
    V.urlopen = no_network


def observe(js, cls, r, h, doc, frag, via_validation):
    url = url_of(doc, frag)
    try:
        if via_validation:
            v = cls({"$ref": url}, resolver=r)
            list(v.iter_errors(1))
        else:
            r.resolve(url)
        res = "ok"
    except js.exceptions.RefResolutionError:
        res = "referror"
    except Exception as e:  # noqa
        res = "crash:" + type(e).__name__
    store = sorted(BYURL[u] for u in r.store if u in BYURL)      # r.store keys are normalised (no empty fragment)
    fetched = [[BYURL.get(u.split("#")[0], u), True] for u in h.calls]
    return res, store, fetched


_JS = None


def replay_one(task):
    global _JS
    cr, kind, hm, alts, idx = task
    if _JS is None:
        _JS = import_lib()
        stub_network(_JS)
    js = _JS
    cls = js.Draft7Validator
    r, h = make_resolver(js, cr, kind, hm)
    probs = []
    live = list(alts)            # the model behaviours still consistent with what was observed
    for k in range(len(alts[0])):
        op0 = alts[0][k]
        res, store, fetched = observe(js, cls, r, h, op0["doc"], op0["frag"], via_validation=(idx + k) % 2 == 0)
        live = [a for a in live if a[k]["res"] == res and sorted(a[k]["store"]) == store
                and (a[k]["nfetch"] == -1 or a[k]["nfetch"] == len(h.calls))]
        if not live:
            probs.append((k, {"answer": res, "handler_calls": list(h.calls), "store_docs": store}))
            break
    if NETWORK:
        probs.append((len(hist) - 1, {"network_primitive_reached": True}))
        del NETWORK[:]
    return probs


def main(args):
    ck = Check("C15", args.tier, args.seed)
    quick = args.tier == "quick"
    js = import_lib()
    stub_network(js)
    nops = 3 if quick else 4
    ck.rule = ("spec side: TLC model-checks spec/Resolver (invariants FetchOnce, StoreStable, LocalNeverFetched, StoreSound; "
               "action property AnswersTransparent) over all histories of <= %d resolutions of 20 URLs (2 remote documents -- one of them empty, the other declaring the first one's URL as its own id --, two "
               "store documents one keyed with a trailing '#', a bundled metaschema x spellings: no fragment, '#', existing pointer, dangling pointer) for 18 "
               "configurations (cache_remote on/off x lru / pass-through / evicting caches x handler modes ok, fail-once, "
               "fail-always) and exports every maximal history with the expected answer, handler-call count and store after "
               "each step; each is replayed on a real RefResolver (alternately through resolve() and through validation of "
               "{\"$ref\": url}) with counting handlers and a stubbed urlopen; the store's key normalisation is a separate refinement model (MC_UriDict: the URIDict vs a plain map over normalised keys, all histories of set/delete with differently spelled keys). unbounded histories: the same design with an inductive invariant is discharged by Apalache (spec/apalache/ApaResolver.tla, 2 obligations). code side: seeded random histories of "
               "length <= 12 recorded from real resolvers, the whole history validated by TLC (Trace_C15). Non-trivial: a "
               "history touching a remote document; distinct by (configuration, history)." % nops)
    cfgs = sorted(glob.glob(os.path.join(tlc.SPEC, "mc", "MC_C15_%s_*.cfg" % args.tier)))
    jobs = [dict(module="mc/MC_C15.tla", cfg=c, workers=2, timeout=3000, heap="3g") for c in cfgs]
    results = tlc.run_many(jobs, parallel=8)
    tasks = []
    for c, r in zip(cfgs, results):
        if r.violation:
            raise tlc.MachineryFailure("Resolver model violates its invariant in %s: %s" % (c, r.violation))
        ck.add_tlc(r)
        txt = open(c).read()
        cr = "CacheRemote = TRUE" in txt
        kind = txt.split('CacheKind = "')[1].split('"')[0]
        hm = {"r1": txt.split('HM1 = "')[1].split('"')[0], "r2": txt.split('HM2 = "')[1].split('"')[0]}
        # the model may allow several behaviours for one sequence of operations (see ResolverFn!Outcomes): group them
        groups = {}
        for ex in r.exports:
            key = tuple((o["doc"], o["frag"]) for o in ex["h"])
            groups.setdefault(key, []).append(ex["h"])
        for i, (key, alts) in enumerate(sorted(groups.items())):
            tasks.append((cr, kind, hm, alts, i))
    outs = pmap(replay_one, tasks, chunk=64)
    for (cr, kind, hm, alts, idx), probs in zip(tasks, outs):
        hist = alts[0]
        ck.replayed += 1
        ck.count((cr, kind, repr(hm), repr([(o["doc"], o["frag"]) for o in hist])), any(o["doc"] in ("r1", "r2") for o in hist))
        for k, got in probs:
            ck.violation("history_step", {"cache_remote": cr, "cache_kind": kind, "handler_modes": hm,
                                          "history": [url_of(o["doc"], o["frag"]) for o in hist], "failing_step": k,
                                          "allowed_by_model": [[(o["res"], o["nfetch"], sorted(o["store"])) for o in h] for h in alts],
                                          "observed": got, "source": "MC_C15"})
    ck.exhaustive = True
    ck.sample({"cache_remote": tasks[7][0], "cache_kind": tasks[7][1], "handler_modes": tasks[7][2],
               "history_with_expected_observations": tasks[7][3][0]})

    # ---- unbounded histories: the inductive invariant of the same design, discharged by Apalache ----------------------
    import subprocess
    import shutil as _sh
    adir = os.path.join(tlc.SPEC, "apalache")
    aout = tlc.workdir("c15-apalache")
    obligations = [("base case: Init => IndInv", ["--init=Init", "--length=0"]),
                   ("inductive step: IndInv /\\ Next => IndInv'", ["--init=IndInit", "--length=1"])]
    discharged = 0
    for name, opts in obligations:
        p = subprocess.run(["apalache-mc", "check", "--cinit=ConstInit", "--inv=IndInv", "--out-dir=" + aout] + opts + ["ApaResolver.tla"],
                           cwd=adir, stdout=subprocess.PIPE, stderr=subprocess.STDOUT, universal_newlines=True, timeout=1800)
        if "The outcome is: NoError" in p.stdout:
            discharged += 1
        elif "The outcome is: Error" in p.stdout:
            raise tlc.MachineryFailure("the Resolver design's inductive invariant fails (%s): the model itself violates C15" % name)
        else:
            raise tlc.MachineryFailure("apalache-mc failed on %s:\n%s" % (name, p.stdout[-1500:]))
    _sh.rmtree(aout, ignore_errors=True)
    ck.notes["apalache_inductive_invariant"] = {"module": "spec/apalache/ApaResolver.tla", "obligations": len(obligations),
                                                "discharged": discharged,
                                                "meaning": "FetchOnce, StoreStable, LocalNeverFetched hold after ANY number of resolutions, for every "
                                                           "configuration (cache_remote x cache kind x failing / failing-once handler sets)"}
    # ---- the store is a mapping keyed by normalised URIs: the URIDict refines a plain map over Uri keys (MC_UriDict) ------
    from jsonschema import _utils
    ru = tlc.run("mc/MC_UriDict.tla", cfg="mc/MC_UriDict_%s.cfg" % args.tier, workers=8, timeout=3000)
    if ru.violation:
        raise tlc.MachineryFailure("URIDict model violated: " + ru.violation)
    ck.add_tlc(ru)
    for ex in ru.exports:
        dct = _utils.URIDict()
        ck.replayed += 1
        ck.count(("uridict", repr([(o["op"], o["u"], o["v"]) for o in ex["h"]])), True)
        for k, o in enumerate(ex["h"]):
            u = "".join(map(chr, o["u"]))
            try:
                if o["op"] == "set":
                    dct[u] = o["v"]
                else:
                    del dct[u]
                got = {"len": len(dct), "get": sorted(("".join(map(chr, sp)), dct.get("".join(map(chr, sp)), -1)) for sp, _ in o["get"].values())}
            except Exception as e:  # noqa
                got = {"raised": "%s: %s" % (type(e).__name__, e)}
            want = {"len": o["len"], "get": sorted(("".join(map(chr, sp)), v) for sp, v in o["get"].values())}
            if got != want:
                ck.violation("uridict_step", {"operations": [(x["op"], "".join(map(chr, x["u"])), x["v"]) for x in ex["h"][:k + 1]],
                                              "expected": want, "observed": got, "source": "MC_UriDict"})
                break
    # ---- code -> spec: random longer histories, whole history judged by TLC ----------------------------------
    n = 600 if quick else 20000
    recs, real = [], {}
    docs = ["r1", "r2", "s", "t", "meta"]
    for i in range(n):
        cr = ck.rng.random() < 0.5
        kind = ck.rng.choice(["lru", "pass", "tiny"])
        hm = {"r1": ck.rng.choice(["ok", "failonce", "fail"]), "r2": ck.rng.choice(["ok", "ok", "failonce"])}
        r, h = make_resolver(js, cr, kind, hm)
        ops = []
        for k in range(ck.rng.randrange(2, 13)):
            doc, frag = ck.rng.choice(docs), ck.rng.choice(["none", "empty", "ptr", "bad", "ptr"])
            res, store, fetched = observe(js, js.Draft7Validator, r, h, doc, frag, ck.rng.random() < 0.5)
            ops.append({"doc": doc, "frag": frag, "res": res, "nfetch": len(h.calls), "store": store,
                        "calls": [BYURL.get(u, u) for u in h.calls]})
        recs.append({"id": i, "cr": cr, "kind": kind, "hm": [[d, m] for d, m in hm.items()], "remote": ["r1", "r2"],
                     "local": ["s", "t", "meta"], "noptr": ["r2"], "ops": ops})
        real[i] = {"cache_remote": cr, "cache_kind": kind, "handler_modes": hm,
                   "history": [(url_of(o["doc"], o["frag"]), o["res"], o["calls"], o["store"]) for o in ops]}
        ck.count((cr, kind, repr(hm), repr([(o["doc"], o["frag"]) for o in ops])), True)
    bad, states = tlc.validate_trace("trace/Trace_C15.tla", recs, "c15", shards=8)
    ck.states += states
    ck.transitions += states
    ck.validated += len(recs)
    for b in bad:
        for clause in b["clauses"]:
            ck.violation(clause, dict(real[b["id"]], source="Trace_C15"))
    if NETWORK:
        ck.violation("network_primitive_reached", {"calls": len(NETWORK)})
    return ck.finish()
