"""C16 - deriving checkers and validator classes never disturbs the originals."""
import warnings

from harness import tlc
from harness.common import Check, import_lib, pmap

PROBE = {"null": None, "true": True, "one": 1, "onef": 1.0, "str": "s", "arr": [], "obj": {}}
NAMES = ["integer", "string", "newtype", "any"]
FMT_NAMES = ["email", "tag", "tag2"]
A_ID, B_ID = "http://a.invalid/", "http://b.invalid/"
_JS = None


NEW_META = "http://new-meta.invalid/schema"


def _no_retrieval(uri):
    raise IOError("no retrieval in this experiment: " + uri)


def preds():
    def strint(checker, x):
        return isinstance(x, str) or (isinstance(x, int) and not isinstance(x, bool))

    def never(checker, x):
        return False
    return {"strint": strint, "never": never}


def fns():
    return {"even": lambda s: not isinstance(s, str) or len(s) % 2 == 0,
            "odd": lambda s: not isinstance(s, str) or len(s) % 2 == 1}


def tc_beh(js, tc):
    out = {}
    for n in NAMES:
        try:
            out[n] = {k: bool(tc.is_type(v, n)) for k, v in PROBE.items()}
        except js.exceptions.UndefinedTypeCheck:
            out[n] = "undefined"
    return out


def id_probe(js, cls_or_obj, is_class):
    """which id keyword the class honours: a relative reference below both an `id` and a `$id`"""
    schema = {"id": A_ID, "$id": B_ID, "properties": {"p": {"$ref": "item.json"}}}
    store = {A_ID + "item.json": {"enum": ["from-id"]}, B_ID + "item.json": {"enum": ["from-$id"]}}
    cls = cls_or_obj if is_class else type(cls_or_obj)
    res = js.RefResolver.from_schema(schema, id_of=cls.ID_OF, store=store)
    v = cls(schema, resolver=res)
    a, b = v.is_valid({"p": "from-id"}), v.is_valid({"p": "from-$id"})
    return "id" if (a and not b) else "$id" if (b and not a) else "?%s%s" % (a, b)


def class_beh(js, c, obj=None):
    """probe a class (obj None) or a validator object"""
    v = obj if obj is not None else c({})
    types = {}
    for n in NAMES:
        try:
            types[n] = {k: bool(v.is_type(x, n)) for k, x in PROBE.items()}
        except js.exceptions.UnknownType:
            types[n] = "undefined"
    kw = []
    if v.is_valid(1, {"minimum": 5}):
        kw.append("override-minimum")
    if not v.is_valid(1, {"x-new": True}):
        kw.append("add-xnew")
    # a verdict probe through the type keyword: the class-level / instance-level checker is the one used
    tv = {}
    for n in ("integer", "newtype"):
        try:
            tv[n] = {k: v.is_valid(x, {"type": n}) for k, x in PROBE.items()}
        except js.exceptions.UnknownType:
            tv[n] = "undefined"
    cs = {}
    if obj is None:
        for name, probe in (("title", {"title": 1}), ("minlen", {"minLength": -1})):
            try:
                c.check_schema(probe)
                cs[name] = "accept"
            except js.exceptions.SchemaError:
                cs[name] = "reject"
            except js.exceptions.UnknownType:
                cs[name] = "undefined"
    flavour = {"divisibleBy": not v.is_valid(3, {"divisibleBy": 2}), "const": not v.is_valid(1, {"const": 2})}
    return {"types": types, "kw": sorted(kw), "idkw": id_probe(js, c, True), "type_keyword": tv, "cs": cs, "flavour": flavour}


def fc_beh(fc):
    out = {}
    for n in FMT_NAMES:
        r = (fc.conforms("ab", n), fc.conforms("abc", n), fc.conforms("a@b", n))
        out[n] = {(True, True, True): "absent", (False, False, True): "builtin", (True, False, False): "even",
                  (False, True, True): "odd"}.get(r, "?%s" % (r,))
    return out


def replay_one(ex):
    global _JS
    if _JS is None:
        _JS = import_lib()
    js = _JS
    import jsonschema.validators as V
    from jsonschema import _types
    FC = js.FormatChecker
    snap = (dict(V.validators), dict(V.meta_schemas.store), dict(FC.checkers))
    P, F = preds(), fns()
    tcs = [_types.draft3_type_checker, _types.draft4_type_checker, _types.draft6_type_checker, _types.draft7_type_checker]
    cls = [js.Draft3Validator, js.Draft4Validator, js.Draft6Validator, js.Draft7Validator]
    vals, fcs = [], [FC()]
    probs = []
    try:
        beh = ex["beh"]
        for step, h in enumerate(ex["hist"]):
            o = h["o"]
            with warnings.catch_warnings():
                warnings.simplefilter("ignore")
                if o["op"] == "redefine":
                    tcs.append(tcs[o["t"] - 1].redefine(o["name"], P[o["pid"]]))
                elif o["op"] == "remove":
                    tcs.append(tcs[o["t"] - 1].remove(o["name"]))
                elif o["op"] == "extend":
                    extra = {}
                    if "override-minimum" in o["feats"]:
                        extra["minimum"] = lambda validator, value, instance, schema: None
                    if "add-xnew" in o["feats"]:
                        def xnew(validator, value, instance, schema):
                            if value:
                                yield js.ValidationError("x-new says no")
                        extra["x-new"] = xnew
                    kwargs = {"validators": extra} if extra else {}        # nothing to override: the argument is omitted
                    cls.append(V.extend(cls[o["c"] - 1], type_checker=tcs[o["t"] - 1] if o["t"] else None, **kwargs))
                elif o["op"] == "create":
                    base = cls[o["c"] - 1]
                    meta = dict(base.META_SCHEMA)
                    meta.pop("id", None)
                    meta.pop("$id", None)
                    if o["metaid"]:
                        meta["$id"] = o["metaid"]
                    cls.append(V.create(meta_schema=meta, validators=base.VALIDATORS, version=o["version"] or None,
                                        type_checker=base.TYPE_CHECKER))
                elif o["op"] == "validator":
                    # (its resolver refuses every retrieval at once: a reference it cannot answer from its own store fails fast)
                    res = js.RefResolver.from_schema({}, id_of=cls[o["c"] - 1].ID_OF, handlers={"http": _no_retrieval})
                    obj = cls[o["c"] - 1]({}, types={"newtype": str}, resolver=res) if o["types"] else cls[o["c"] - 1]({}, resolver=res)
                    vals.append(obj)
                    if o["types"]:
                        tcs.append(obj.TYPE_CHECKER)
                elif o["op"] == "checks":
                    fcs[o["f"] - 1].checks(o["name"])(F[o["fn"]])
                elif o["op"] == "cls_checks":
                    FC.cls_checks(o["name"])(F[o["fn"]])
                elif o["op"] == "format_checker":
                    fcs.append(FC(formats=[n for n in o["formats"] if n in FC.checkers]) if o["formats"] else FC())
            # ---- probe every live object; the model says: type checkers, classes and validator objects behave as in the
            # final table (their behaviour never changes), format checkers as in this step's snapshot
            for i, t in enumerate(tcs):
                if tc_beh(js, t) != beh["tc"][i]:
                    probs.append((step, "type_checker", i + 1, tc_beh(js, t), beh["tc"][i]))
            for i, c in enumerate(cls):
                got = class_beh(js, c)
                want = beh["cls"][i]
                if got["types"] != want["types"] or got["kw"] != sorted(want["kw"]) or got["idkw"] != want["idkw"] or \
                        any(got["type_keyword"][n] != want["types"][n] for n in ("integer", "newtype")) or \
                        any(want["cs"][n] != "skip" and got["cs"][n] != want["cs"][n] for n in ("title", "minlen")) or \
                        got["flavour"] != want["flavour"]:
                    probs.append((step, "class", i + 1, got, want))
            for i, v in enumerate(vals):
                got = class_beh(js, type(v), obj=v)
                want = beh["val"][i]
                try:
                    v.is_valid(1, {"$ref": NEW_META})
                    got["knows"] = True
                except js.exceptions.RefResolutionError:
                    got["knows"] = False
                if got["types"] != want["types"] or got["kw"] != sorted(want["kw"]) or got["knows"] != want["knows"] or \
                        got["flavour"] != want["flavour"]:
                    probs.append((step, "validator_object", i + 1, got, want))
            for i, f in enumerate(fcs):
                want = {n: h["fcs"][i].get(n, "absent") for n in FMT_NAMES}
                if fc_beh(f) != want:
                    probs.append((step, "format_checker", i + 1, fc_beh(f), want))
            fresh = fc_beh(FC())
            wantcf = {n: h["cf"].get(n, "absent") for n in FMT_NAMES}
            if fresh != wantcf:
                probs.append((step, "class_wide_formats", 0, fresh, wantcf))
            if probs:
                break
        # registrations
        if not probs:
            for name, idx in ex["byName"].items():
                if V.validators.get(name) is not cls[idx - 1]:
                    probs.append((len(ex["hist"]) - 1, "registry_by_name", name, str(V.validators.get(name)), idx))
            for mid, idx in ex["byId"].items():
                if not mid.startswith("std") and V.meta_schemas.get(mid) is not cls[idx - 1]:
                    probs.append((len(ex["hist"]) - 1, "registry_by_id", mid, str(V.meta_schemas.get(mid)), idx))
            for d, c in zip((3, 4, 6, 7), cls[:4]):
                if V.meta_schemas.get(c.ID_OF(c.META_SCHEMA)) is not c:
                    probs.append((len(ex["hist"]) - 1, "registry_by_id", "draft%d" % d, "replaced", d))
    except Exception as e:  # noqa
        probs.append((-1, "operation_raises", 0, "%s: %s" % (type(e).__name__, str(e)[:120]), None))
    finally:
        V.validators.clear()
        V.validators.update(snap[0])
        V.meta_schemas.store.clear()
        V.meta_schemas.store.update(snap[1])
        FC.checkers.clear()
        FC.checkers.update(snap[2])
    return probs


def replay_line(line):
    ex = tlc.parse_export(line)
    return [h["o"] for h in ex["hist"]], ex["base"], replay_one(ex)


def main(args):
    ck = Check("C16", args.tier, args.seed)
    quick = args.tier == "quick"
    nops = 3 if quick else 4
    ck.rule = ("histories = all sequences of %d operations from each of the four draft classes over {redefine an existing type, "
               "redefine a new type, remove a type, extend (no change / keyword override / new keyword / other type checker), "
               "create (unregistered / registered under a fresh id), Validator() / Validator(types=...), checker.checks (new name "
               "/ overriding a builtin), FormatChecker.cls_checks, FormatChecker() / FormatChecker(formats=...)} with operands "
               "among all objects created so far (spec/Registry, MC_C16: action property Undisturbed, invariant "
               "ExtendIdentity); each history is replayed with real objects and EVERY live type checker, class, validator "
               "object and format checker is probed after EVERY step (is_type tables, the type keyword, overridden / added "
               "keywords, which id keyword is honoured, what check_schema accepts, whether a validator object resolves a reference to the later-registered metaschema id, format functions) and compared with the model's table; registries "
               "are restored between histories. Non-trivial: a history that creates >= 2 objects; distinct by history." % nops)
    jobs = [dict(module="mc/MC_C16.tla", cfg="mc/MC_C16_%s_b%d.cfg" % (args.tier, b), workers=4 if quick else 16, timeout=7000,
                 heap="5g" if quick else "12g", lazy_exports=True) for b in (1, 2, 3, 4)]
    # quick: the four base drafts in parallel JVMs; thorough: one after the other, each batch replayed and dropped before
    # the next (the histories of 4 operations with their probe tables do not fit in memory together)
    batches = [tlc.run_many(jobs, parallel=4)] if quick else ([tlc.run(**j)] for j in jobs)
    mid = None
    for results in batches:
        lines = []
        for r in results:
            if r.violation:
                raise tlc.MachineryFailure("Registry model violated: %s" % r.violation)
            ck.add_tlc(r)
            lines += r.exports
            r.exports = []
        outs = pmap(replay_line, lines, chunk=32)
        for ops, base, probs in outs:
            ck.replayed += 1
            ck.count(repr(ops), sum(1 for o in ops if "new" in o) >= 2)
            for step, kind, idx, got, want in probs:
                ck.violation(kind, {"base_draft": (3, 4, 6, 7)[base - 1], "operations": ops, "failing_step": step,
                                    "object": "%s #%s" % (kind, idx), "observed_behaviour": got, "model_behaviour": want,
                                    "source": "MC_C16"})
        if outs and mid is None:
            ops, base, _ = outs[len(outs) // 2]
            mid = {"base_draft": (3, 4, 6, 7)[base - 1], "operations": ops}
        del lines, outs
    ck.exhaustive = True
    ck.sample(mid)
    return ck.finish()
