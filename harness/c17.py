"""C17 - an ErrorTree can always be built and contains every error where its path says."""
import itertools
import random

from harness import tlc
from harness.common import Check, draft_classes, import_lib, pmap
from harness.encode import enc_path, enc_str
from harness.gen_schema import Gen

DRAFTS = (3, 4, 6, 7)


def tag_path(path):
    return enc_path(path)


def project(js, errors, instance=None, probe_index=False):
    """build the tree from `errors` (in this order) and project it; never raises"""
    rec = {"order": [{"p": tag_path(e.path), "kw": e.validator if isinstance(e.validator, str) else "<none>"} for e in errors],
           "raised": "none", "nodes": [], "idx": []}
    try:
        tree = js.exceptions.ErrorTree(errors)
    except Exception as e:  # noqa
        rec["raised"] = type(e).__name__
        return rec
    by_path = {}
    for e in errors:
        by_path.setdefault(tuple(e.path), []).append(e)

    def walk(node, path):
        kws = sorted(k if isinstance(k, str) else "<none>" for k in node.errors)
        kids = list(node._contents.keys())          # children actually present
        found = True
        for e in by_path.get(tuple(path), []):
            # "walking it along any error's path reaches a node whose errors maps that error's keyword": the public way
            try:
                reached = tree
                for el in e.path:
                    reached = reached[el]
                found = found and (e.validator in reached.errors) and list(reached.errors[e.validator].path) == list(e.path)
            except Exception:  # noqa
                found = False
        try:
            it = list(iter(node))
            contains = all(k in node for k in kids)
            total, ln = node.total_errors, len(node)
        except Exception as e:  # noqa
            it, contains, total, ln = [], False, -1, -2
        rec["nodes"].append({"p": tag_path(path), "kws": kws, "kids": tag_path(kids), "iter": tag_path(it) if contains else [],
                             "total": total, "len": ln, "found": found})
        for k in kids:
            walk(node._contents[k], path + [k])
    walk(tree, [])
    if probe_index and instance is not None:
        # indexing an element that exists in the instance but has no errors gives an empty tree (fresh tree each time:
        # a lookup inserts an empty child, which is the documented quirk and not claimed)
        def elements(inst, path):
            out = []
            if isinstance(inst, dict):
                for k, v in inst.items():
                    out.append((path, k))
                    out += elements(v, path + [k])
            elif isinstance(inst, (list, tuple)):
                for i, v in enumerate(inst):
                    out.append((path, i))
                    out += elements(v, path + [i])
            return out
        errpaths = {tuple(e.path)[:n] for e in errors for n in range(len(e.path) + 1)}
        for path, k in elements(instance, [])[:40]:
            if tuple(path + [k]) in errpaths or tuple(path) not in errpaths:
                continue
            t = js.exceptions.ErrorTree(errors)
            try:
                node = t
                for p in path:
                    node = node[p]
                sub = node[k]
                out = "empty" if (len(sub) == 0 and not sub.errors) else "nonempty"
            except Exception as e:  # noqa
                out = type(e).__name__
            rec["idx"].append({"p": tag_path(path), "k": tag_path([k])[0], "out": out})
        # the same on ONE tree, for every error-free element at any depth, one lookup after the other (earlier lookups only
        # ever add empty children): walking from the root through nodes with errors and error-free elements alike
        t2 = js.exceptions.ErrorTree(errors)
        fresh = {(repr(r["p"]), repr(r["k"])): r["out"] for r in rec["idx"]}
        for path, k in elements(instance, [])[:40]:
            if tuple(path + [k]) in errpaths:
                continue
            try:
                node = t2
                for p in path:
                    node = node[p]
            except Exception:  # noqa -- a step of the way failed: that step is an element of its own, judged by its own probe
                continue
            try:
                sub = node[k]
                out = "empty" if (len(sub) == 0 and not sub.errors) else "nonempty"
            except Exception as e:  # noqa
                out = type(e).__name__
            r = {"p": tag_path(path), "k": tag_path([k])[0], "out": out}
            if fresh.get((repr(r["p"]), repr(r["k"]))) == out:
                continue        # (already recorded above from a fresh tree, with the same result)
            rec["idx"].append(r)
    return rec


def real_cases(task):
    i, d, seed = task
    js = import_lib()
    cls = draft_classes()[d]
    rng = random.Random(seed)
    g = Gen(rng, d, maxdepth=3)
    special = rng.random()
    if special < 0.15 and d == 3:
        S = {"properties": {"a": {"required": True}, "b": {"required": True, "type": "string"}, "c": {"type": "integer"}},
             "additionalProperties": rng.choice([False, {"type": "null"}])}
        I = rng.choice([{"x": 1}, {"c": "s", "y": 2}, {"b": 1}])
    elif special < 0.15 and d >= 6:
        S = {"propertyNames": {"maxLength": 1, "pattern": "^a"}, "properties": {"ab": {"type": "string"}, "b": {"items": {"type": "integer"}}},
             "minProperties": rng.choice([1, 4])}
        I = rng.choice([{"ab": 1, "c": 2}, {"ab": "s", "b": [1, "x"], "cc": 3}, {"ab": {"ab": 1}}])
    elif special < 0.25:
        # an unmet property dependency next to errors inside the dependent property's own value
        S = {"dependencies": {"foo": ["bar"] if d >= 4 else "bar", "arr": ["zip"] if d >= 4 else ["zip"]},
             "properties": {"foo": {"properties": {"y": {"type": "integer"}}}, "arr": {"items": {"type": "integer"}}}}
        I = rng.choice([{"foo": {"x": 1, "y": "s"}}, {"foo": {"x": 1}}, {"arr": [1, "two", 3]}, {"arr": [1, 2], "foo": {"x": {"z": 1}, "y": None}}])
    else:
        S = g.schema()
        I = g.instance(S)
    try:
        cls.check_schema(S)
        if rng.random() < 0.12:
            # the documented tuples-as-arrays use: a class from extend() whose "array" admits tuples, and an instance
            # whose arrays ARE tuples -- existing, error-free elements of a tuple index to an empty tree like any other
            cls = js.validators.extend(cls, type_checker=cls.TYPE_CHECKER.redefine("array", lambda c, x: isinstance(x, (list, tuple))))

            def tuplify(x):
                if isinstance(x, list):
                    return tuple(tuplify(v) for v in x)
                if isinstance(x, dict):
                    return {k: tuplify(v) for k, v in x.items()}
                return x
            I = tuplify(I)
        errors = list(cls(S).iter_errors(I))
    except Exception:
        return []
    if not errors or len(errors) > 7:
        return []
    perms = list(itertools.permutations(errors)) if len(errors) <= 4 else \
        [tuple(rng.sample(errors, len(errors))) for _ in range(24)]
    out = []
    # errors raised below a propertyNames keyword carry the property NAME as their instance, filed at the object's own path
    def is_pn(e):
        return isinstance(e.instance, str) and "propertyNames" in list(e.absolute_schema_path)
    pn = any(is_pn(e) for e in errors)
    for n, perm in enumerate(perms[:24]):
        rec = project(js, list(perm), instance=I, probe_index=(n < 6))
        rec["id"] = i * 100 + n
        # the paths at which the LAST error to arrive was a property-name error (the node keeps the last instance it saw)
        last = {}
        for e in perm:
            last[tuple(e.path)] = is_pn(e)
        pn_paths = [tag_path(list(p)) for p, flag in last.items() if flag]
        out.append((rec, {"draft": d, "schema": S, "instance": I, "errors_in_arrival_order": [(list(e.path), e.validator) for e in perm],
                          "has_property_name_error": pn, "property_name_error_paths": pn_paths}))
    return out


def main(args):
    ck = Check("C17", args.tier, args.seed)
    js = import_lib()
    quick = args.tier == "quick"
    ck.rule = ("spec side: TLC builds the tree incrementally (ErrorTree!AddTo never consults an instance) for ALL sequences of <= %d "
               "errors over 31 paths (length <= 2 through object keys -- including keys spelled like nested locations, 'a.b' and 'a[0]' -- and array indices) x 3 keywords and checks after every "
               "step that it refines the declarative meaning (errors at a node, child keys, totals = distinct (path, keyword) "
               "pairs) and is independent of arrival order; every final sequence is replayed with synthetic ValidationErrors. "
               "code side: the real errors of random validations (plus Draft 3 required and propertyNames shapes), in every "
               "permutation (<= 4 errors) or 24 sampled permutations, are given to ErrorTree; the observed tree is projected "
               "(keywords per node, child keys via _contents / iteration / membership, total_errors, len, each error found at "
               "its path) and TLC judges it (Trace_C17); indexing of error-free existing elements is probed on fresh trees. "
               "Non-trivial: >= 2 errors; distinct by the arrival sequence." % (2 if quick else 3))
    r = tlc.run("mc/MC_C17.tla", cfg="mc/MC_C17_%s.cfg" % args.tier, workers=16, timeout=3000, coverage=True)
    if r.violation:
        raise tlc.MachineryFailure("ErrorTree model violated: " + r.violation)
    ck.add_tlc(r, "MC_C17")
    VE = js.exceptions.ValidationError
    recs, real = [], {}

    def untag(p):
        return [el["s"] if "s" in el else el["i"] for el in p]
    for n, ex in enumerate(r.exports):
        errors = [VE("synthetic", path=untag(e["p"]), validator=e["kw"]) for e in ex["order"]]
        rec = project(js, errors)
        # synthetic paths use plain strings as keys: re-tag the observed projection in the model's own key format
        rec["id"] = n
        rec["order"] = ex["order"]
        for node in rec["nodes"]:
            for f in ("p", "kids", "iter"):
                node[f] = [{"s": "".join(map(chr, el["s"]))} if "s" in el else el for el in node[f]]
        recs.append(rec)
        real[n] = {"synthetic_errors_in_arrival_order": [(untag(e["p"]), e["kw"]) for e in ex["order"]]}
        ck.replayed += 1
        ck.count(repr(ex["order"]), True)
    base = len(recs)
    nreal = 400 if quick else 8000
    outs = pmap(real_cases, [(i, DRAFTS[i % 4], args.seed * 1000003 + i) for i in range(nreal)], chunk=16)
    for o in outs:
        for rec, info in o:
            rec["id"] += base + 1000
            # keys of real instances are code-point sequences; the order uses the same tagging
            recs.append(rec)
            real[rec["id"]] = info
            ck.count(repr(rec["order"]), len(rec["order"]) >= 2)
            if len(ck.samples) < 3 and len(rec["order"]) >= 3:
                ck.sample(info)
    bad, states = tlc.validate_trace("trace/Trace_C17.tla", recs, "c17", shards=16)
    ck.states += states
    ck.transitions += states
    ck.validated += len(recs)
    ck.exhaustive = True
    for b in bad:
        for clause in b["clauses"]:
            rec = next(x for x in recs if x["id"] == b["id"])
            ck.violation(clause, dict(real[b["id"]], source="Trace_C17", raised=rec["raised"],
                                      index_probes=[x for x in rec["idx"] if x["out"] != "empty"][:3]))
    return ck.finish()
