"""C18 - validators that share no resolver are independent under any interleaving."""
import copy
import json
import os
import sys
import threading

from harness import tlc, scen, tracing
from harness.common import Check, import_lib, draft_classes
from harness.encode import enc_str

DRAFTS = (3, 4, 6, 7)
ROOT, OTHER, NESTED = scen.ROOT, scen.OTHER, scen.NESTED


def pairs(d):
    """groups of members colliding on every key a shared cache could use; a member = scenario dict + one instance"""
    idk = "id" if d <= 4 else "$id"
    js = import_lib()

    def member(defs_item, other_doc, nested_doc, inst, fmt=None):
        return dict(name="m", schema={idk: ROOT,
                                      "properties": {"a": {"$ref": "#/definitions/item"},
                                                     "b": {idk: NESTED, "properties": {"c": {"$ref": "item.json"}}},
                                                     "r": {"$ref": OTHER + "#/definitions/x"},
                                                     "p": {"pattern": "^a+$", "format": "tag"},
                                                     "z": {"$ref": "#/definitions/item"}},
                                      "definitions": {"item": defs_item}},
                    store={OTHER: {"definitions": {"x": other_doc}}, NESTED + "item.json": nested_doc}, remote={},
                    instances=[inst], refs=[], fmt=fmt)
    instA = {"a": "s", "b": {"c": 1}, "r": None, "p": "bbb", "z": 1.5}
    instB = {"a": 1, "b": {"c": "t"}, "r": 2, "p": "bbb", "z": "q"}
    A = member({"type": "integer"}, {"type": "string"}, {"type": "string"}, instA, fmt="even")
    B = member({"type": "string"}, {"type": "integer"}, {"type": "integer"}, instB, fmt="odd")
    smallA = {"a": "s", "b": {"c": 1}, "z": 1.5}
    smallB = {"a": 1, "r": 2}
    A3 = member({"type": "integer"}, {"type": "string"}, {"type": "string"}, smallA, fmt="even")
    B3 = member({"type": "string"}, {"type": "integer"}, {"type": "integer"}, smallB, fmt="odd")
    C = member({"type": "null"}, {"type": "null"}, {"type": "null"}, smallA)
    rec = dict(name="rec", schema={"properties": {"next": {"$ref": "#"}, "v": {"type": "integer"}}}, store={}, remote={},
               instances=[{"v": "x", "next": {"v": None, "next": {"v": "y"}}}], refs=[], fmt=None)
    rec2 = dict(name="rec2", schema={"properties": {"next": {"$ref": "#"}, "v": {"type": "string"}}}, store={}, remote={},
                instances=[{"v": 1, "next": {"v": 2, "next": {"v": "y"}}}], refs=[], fmt=None)
    # two validators built from the very same schema OBJECT with default construction (no resolver passed): each
    # gets its own resolver; one is suspended inside a subschema with its own id while the other resolves a reference
    shared = {"properties": {"a": {idk: "http://y.invalid/inner/", "properties": {"k": {"type": "integer"}, "k2": {"type": "integer"}}},
                             "z": {"$ref": "#/definitions/item"}, "z2": {"$ref": "#/definitions/item"}},
              "definitions": {"item": {"type": "string"}}}
    D1 = dict(name="shared-object", schema=shared, store={}, remote={}, instances=[{"a": {"k": "x", "k2": "y"}, "z": 5}], refs=[],
              fmt=None, default=True)
    D2 = dict(name="shared-object", schema=shared, store={}, remote={}, instances=[{"z": 1, "a": {"k": None}, "z2": 2}], refs=[],
              fmt=None, default=True)
    # the one URL every resolver's store holds from the start: the draft's own metaschema.  One member overrides what
    # its store serves for it (as one does for an adjusted metaschema), one replaces it differently, one leaves it alone
    meta_url = cls_meta_url(d)

    def meta_member(name, override, inst):
        return dict(name=name, schema={"properties": {"m": {"$ref": meta_url + "#/properties/maxLength"},
                                                      "n": {"$ref": meta_url + "#/properties/maxLength"}}},
                    store=({meta_url: {"properties": {"maxLength": override}}} if override is not None else {}), remote={},
                    instances=[inst], refs=[], fmt=None)
    # the very same instance OBJECT handed to two validators (validation never modifies it, so sharing it is legitimate)
    instS = {"a": 1.5, "b": {"c": None}, "r": [], "z": {}}
    E1 = dict(member({"type": "integer"}, {"type": "string"}, {"type": "string"}, instS), share=True)
    E2 = dict(member({"type": "string"}, {"type": "integer"}, {"type": "integer"}, instS), share=True)
    # each member has its own resolver, but both resolvers were constructed from ONE store object (a URIDict, as another
    # resolver's .store is): a store argument is copied, never adopted
    SA = dict(member({"type": "integer"}, {"type": "null"}, {"type": "null"}, {"a": "s", "z": 1.5, "r": 1}), shared_store=True)
    SB = dict(member({"type": "string"}, {"type": "null"}, {"type": "null"}, {"a": 1, "z": "q", "b": {"c": 2}}), shared_store=True)
    # the same remote URL retrieved through each member's OWN handler, which serves that member's own document
    def remote_member(doc, inst):
        return dict(name="own-handler", schema={"properties": {"r": {"$ref": scen.REMOTE + "#/definitions/x"}, "q": {"type": "null"}}},
                    store={}, remote={scen.REMOTE: {"definitions": {"x": doc}}}, instances=[inst], refs=[], fmt=None)
    H1 = remote_member({"type": "integer"}, {"r": "s", "q": 1})
    H2 = remote_member({"type": "string"}, {"q": 2, "r": 1})
    # ... and one whose own handler cannot retrieve it at all (its validation ends in RefResolutionError, alone or not)
    HF = dict(remote_member({"type": "null"}, {"q": 3, "r": 1}), handler_fails=True)
    M1 = meta_member("meta-override-1", {"type": "string"}, {"m": 3, "n": "x"})
    M2 = meta_member("meta-override-2", {"type": "null"}, {"m": "x", "n": None})
    M3 = meta_member("meta-default", None, {"m": "x", "n": -1})
    return [[A, B], [B, A], [A3, B3, C], [rec, rec2], [A, rec], [D1, D2], [M1, M3], [M3, M2], [M2, M1], [E1, E2], [H1, H2], [HF, H2], [H1, HF], [SA, SB]]


def instances_for(grp):
    """one instance per member; members marked `share` all receive the SAME object"""
    shared = copy.deepcopy(grp[0]["instances"][0]) if all(m.get("share") for m in grp) else None
    return [shared if shared is not None else copy.deepcopy(m["instances"][0]) for m in grp]


def cls_meta_url(d):
    cls = draft_classes()[d]
    return cls.ID_OF(cls.META_SCHEMA).rstrip("#")


def _solo_fresh(job):
    d, gi, mi = job
    return solo(d, pairs(d)[gi][mi])


def fresh_solos(jobs):
    """'running alone': each member's errors computed in a process of its own (spawned, one task per process), so that
    nothing another validator left behind anywhere in the process can be part of the baseline"""
    import multiprocessing
    from concurrent.futures import ProcessPoolExecutor
    with ProcessPoolExecutor(max_workers=16, mp_context=multiprocessing.get_context("spawn"), max_tasks_per_child=1) as ex:
        return list(ex.map(_solo_fresh, jobs))


def checker_for(js, kind):
    if kind is None:
        return None
    fc = js.FormatChecker()          # default construction: every checker object has its own registry
    if kind == "even":
        fc.checks("tag")(lambda s: not isinstance(s, str) or len(s) % 2 == 0)
    else:
        fc.checks("tag")(lambda s: not isinstance(s, str) or len(s) % 2 == 1)
    return fc


_SHARED = {}


class MeetingHandler(object):
    """a retrieval handler serving this member's own documents.  When a meeting point is set (threaded rounds), every
    retrieval waits there briefly for the other members' retrievals: the handlers of all members are then inside their
    retrievals of the same URL at the same time, each for its own resolver"""
    def __init__(self, docs, fails=False):
        self.docs, self.meet, self.calls, self.fails = docs, None, 0, fails

    def __call__(self, uri):
        self.calls += 1
        if self.meet is not None:
            try:
                self.meet.wait()
            except threading.BrokenBarrierError:
                pass
        if self.fails:
            raise IOError("this member's own source for %s is down" % uri)
        return copy.deepcopy(self.docs[uri])


def build(d, m, real=False):
    js = import_lib()
    cls = draft_classes()[d]
    if real and m.get("default"):
        # exactly what a user writes: the same schema object, no resolver argument
        return cls(m["schema"], format_checker=checker_for(js, m.get("fmt"))), None
    R = tracing.make_tracing_resolver_class()
    schema = copy.deepcopy(m["schema"])
    kw = {}
    store = copy.deepcopy(m["store"])
    if m.get("shared_store"):
        if d not in _SHARED:
            from jsonschema._utils import URIDict
            _SHARED[d] = URIDict()
            _SHARED[d].update(copy.deepcopy(m["store"]))
        store = _SHARED[d]
    if m.get("remote"):
        h = MeetingHandler(copy.deepcopy(m["remote"]), fails=bool(m.get("handler_fails")))
        kw["handlers"] = {"http": h, "https": h}
    res = R.from_schema(schema, id_of=cls.ID_OF, store=store, **kw)
    if m.get("remote"):
        res.meeting_handler = h
    return cls(schema, resolver=res, format_checker=checker_for(js, m.get("fmt"))), res


class Turns(object):
    """turn-passing scheduler: slot k of `sched` belongs to one member; a member holds the turn from the moment its slot
    starts until it reaches its next event (or finishes), so the threads execute exactly the interleaving TLC chose"""
    def __init__(self, sched):
        self.sched, self.pos, self.holder = sched, 0, None
        self.cond = threading.Condition()
        self.problem = None

    def before_event(self, me):
        with self.cond:
            if self.holder == me:
                self.holder = None
                self.cond.notify_all()
            while not (self.holder is None and self.pos < len(self.sched) and self.sched[self.pos] == me):
                if self.problem or self.pos >= len(self.sched):
                    self.problem = self.problem or "member %d performs more events than its script" % me
                    self.cond.notify_all()
                    raise RuntimeError(self.problem)
                if not self.cond.wait(timeout=10):
                    self.problem = "schedule cannot be followed (position %d, member %d waiting)" % (self.pos, me)
                    self.cond.notify_all()
                    raise RuntimeError(self.problem)
            self.holder = me
            self.pos += 1

    def finished(self, me):
        with self.cond:
            if self.holder == me:
                self.holder = None
            self.cond.notify_all()


def run_scheduled(d, grp, sched):
    js = import_lib()
    cls = draft_classes()[d]
    turns = Turns(sched)

    def make(me, m):
        class Gated(js.RefResolver):
            def push_scope(self, scope):
                turns.before_event(me)
                return super().push_scope(scope)

            def pop_scope(self):
                turns.before_event(me)
                return super().pop_scope()

            def resolve(self, ref):
                turns.before_event(me)
                return super().resolve(ref)
        schema = copy.deepcopy(m["schema"])
        res = Gated.from_schema(schema, id_of=cls.ID_OF, store=copy.deepcopy(m["store"]))
        return cls(schema, resolver=res, format_checker=checker_for(js, m.get("fmt")))
    vals = [make(i + 1, m) for i, m in enumerate(grp)]
    out = [None] * len(grp)
    insts = instances_for(grp)

    def work(i):
        try:
            out[i] = collect(vals[i].iter_errors(insts[i]))
        except Exception as e:  # noqa
            out[i] = "%s: %s" % (type(e).__name__, str(e)[:80])
        finally:
            turns.finished(i + 1)
    ts = [threading.Thread(target=work, args=(i,)) for i in range(len(grp))]
    for t in ts:
        t.start()
    for t in ts:
        t.join(30)
    return out, turns.problem


def collect(gen):
    """the errors an iterator yields, in order; a RefResolutionError ending the iteration is part of the outcome"""
    js = import_lib()
    out = []
    try:
        for e in gen:
            out.append(scen.canon(e))
    except js.exceptions.RefResolutionError:
        out.append(("raised", "RefResolutionError"))
    return out


def solo(d, m):
    v, res = build(d, m, real=True)
    return collect(v.iter_errors(copy.deepcopy(m["instances"][0])))


def measure(d, m, table):
    """script of the member's iteration (format checker included) -- as scen.measure, with the member's checker"""
    js = import_lib()
    v, res = build(d, m)
    script = []
    gen = v.iter_errors(copy.deepcopy(m["instances"][0]))
    while True:
        n0 = len(res.events)
        try:
            e = next(gen)
        except StopIteration:
            script += scen.convert(res.events[n0:])
            break
        except js.exceptions.RefResolutionError:
            evs = scen.convert(res.events[n0:])
            cut = next((k for k, x in enumerate(evs) if x["e"] == "res" and not x["ok"]), None)
            script += evs[:cut + 1] if cut is not None else evs
            break
        script += scen.convert(res.events[n0:])
        key = scen.canon(e)
        table.setdefault(key, len(table) + 1)
        script.append({"e": "yield", "a": table[key]})
    return script


def main(args):
    ck = Check("C18", args.tier, args.seed)
    js = import_lib()
    quick = args.tier == "quick"
    ck.rule = ("groups of 2-3 validator objects per draft whose schemas collide on every key a shared cache could use (same base "
               "URI, same $ref strings designating different definitions, same nested id and relative reference, same "
               "remote URL served by different stores, same pattern, same format name with different checker functions, "
               "recursive schemas, the draft's metaschema URL overridden differently in each member's store, two validators given the very same instance object, two validators retrieving the same remote URL through their own handlers which serve different documents and, in the threaded rounds, are inside their retrievals at the same time); each member's errors when running alone are computed in a freshly spawned process of its own; the script of each member's iteration is measured on the real code, TLC enumerates ALL "
               "interleavings of next() steps (MC_Interleave: invariant Independent; negative control SharedStack must be "
               "violated), and every maximal schedule is replayed on real iterators and compared with the solo runs; plus "
               "event-level thread schedules: TLC enumerates every schedule of resolver events with <= %d preemptions (MC_Sched) and each is replayed on real threads whose resolvers block before every event until granted the turn; and unscheduled threaded runs (1 microsecond switch interval) compared with the solo runs." % (1 if quick else 2) + " Non-trivial: a "
               "schedule that switches iterators at least twice; distinct by (draft, group, schedule).")
    groups, meta = [], []
    for d in DRAFTS:
        for grp in pairs(d):
            table = {}
            members = []
            for m in grp:
                base = m["schema"].get("id" if d <= 4 else "$id", "")
                members.append({"base": enc_str(base), "script": measure(d, m, table)})
            groups.append(members)
            meta.append((d, grp, table))
    wd = tlc.workdir("c18")
    sf = os.path.join(wd, "groups.json")
    json.dump(groups, open(sf, "w"))
    r = tlc.run("mc/MC_Interleave.tla", cfg="mc/MC_Interleave.cfg", workers=16, timeout=3000, env={"SCEN_FILE": sf}, heap="6g")
    if r.violation:
        raise tlc.MachineryFailure("interleaving model violated: " + r.violation)
    ck.add_tlc(r, "MC_Interleave")
    rn = tlc.run("mc/MC_Interleave.tla", cfg="mc/MC_Interleave_neg.cfg", workers=8, timeout=3000, env={"SCEN_FILE": sf},
                 expect_violation=True)
    tlc.cleanup("c18")
    if not rn.violation or "Independent" not in rn.violation:
        raise tlc.MachineryFailure("negative control SharedStack did not violate Independent")
    ck.notes["negative_control_violated"] = rn.violation
    exports = r.exports
    if quick and len(exports) > 6000:
        # every schedule of the small groups, a seeded sample of the large ones
        by = {}
        for ex in exports:
            by.setdefault(ex["g"], []).append(ex)
        exports = []
        for gi, lst in sorted(by.items()):
            if len(lst) > 400:
                ck.rng.shuffle(lst)
                lst = lst[:400]
            exports += lst
        ck.notes["schedules_replayed_of"] = len(r.exports)
    else:
        ck.exhaustive = True
    per_draft = len(pairs(DRAFTS[0]))
    jobs = [(d, gi % per_draft, mi) for gi, (d, grp, table) in enumerate(meta) for mi in range(len(grp))]
    fresh = dict(zip([(gi, mi) for gi, (d, grp, table) in enumerate(meta) for mi in range(len(grp))], fresh_solos(jobs)))
    solos = {gi: [fresh[(gi, mi)] for mi in range(len(grp))] for gi, (d, grp, table) in enumerate(meta)}
    ck.notes["solo_baselines"] = "%d members, each run alone in a freshly spawned process" % len(jobs)
    for ex in exports:
        gi = ex["g"] - 1
        d, grp, table = meta[gi]
        vals = [build(d, m, real=True) for m in grp]
        gens = [v.iter_errors(I) for (v, _), I in zip(vals, instances_for(grp))]
        got = [[] for _ in grp]
        crashed = None
        ended = set()
        for n in ex["sched"]:
            if n in ended:
                continue
            try:
                got[n - 1].append(scen.canon(next(gens[n - 1])))
            except StopIteration:
                pass
            except js.exceptions.RefResolutionError:
                got[n - 1].append(("raised", "RefResolutionError"))
                ended.add(n)
            except Exception as e:  # noqa
                crashed = "%s: %s" % (type(e).__name__, str(e)[:80])
                break
        ck.replayed += 1
        switches = sum(1 for a, b in zip(ex["sched"], ex["sched"][1:]) if a != b)
        ck.count((d, gi, tuple(ex["sched"])), switches >= 2)
        if crashed or got != solos[gi]:
            ck.violation("interleaving_changes_errors", {"draft": d, "schemas": [m["schema"] for m in grp],
                                                         "instances": [m["instances"][0] for m in grp], "schedule": ex["sched"],
                                                         "errors_interleaved": got, "errors_alone": solos[gi], "crash": crashed})
        elif len(ck.samples) < 2 and switches >= 3:
            ck.sample({"draft": d, "schedule": ex["sched"], "errors_per_iterator": [len(x) for x in got]})
    # ---- threads under a deterministic scheduler: TLC enumerates the event-level schedules with a bounded number of
    # preemptions (MC_Sched); each member runs in a real thread whose resolver blocks before every event (push / pop /
    # resolve) until the schedule grants it the turn
    two = [(gi, m) for gi, m in enumerate(meta) if len(m[1]) == 2 and not any(x.get("default") or x.get("remote") for x in m[1])]
    sgroups = [groups[gi] for gi, _ in two]
    wd = tlc.workdir("c18s")
    sf = os.path.join(wd, "groups.json")
    json.dump(sgroups, open(sf, "w"))
    rs = tlc.run("mc/MC_Sched.tla", cfg="mc/MC_Sched_%s.cfg" % args.tier, workers=16, timeout=3000, env={"SCEN_FILE": sf}, heap="6g")
    tlc.cleanup("c18s")
    if rs.violation:
        raise tlc.MachineryFailure("event-level schedule model violated: " + rs.violation)
    ck.add_tlc(rs, "MC_Sched")
    nsched_bad = 0
    for ex in rs.exports:
        if nsched_bad >= 5:
            break
        gi, (d, grp, table) = two[ex["g"] - 1]
        want = solos.get(gi) or [solo(d, m) for m in grp]
        got, problem = run_scheduled(d, grp, ex["sched"])
        ck.replayed += 1
        ck.count((d, gi, "events", tuple(ex["sched"])), True)
        if (problem or got != want) and nsched_bad >= 5:
            continue            # enough replay files of this kind; every further one costs a scheduler timeout
        if problem or got != want:
            nsched_bad += 1
            ck.violation("thread_schedule_changes_errors", {"draft": d, "schemas": [m["schema"] for m in grp],
                                                            "instances": [m["instances"][0] for m in grp],
                                                            "event_schedule": ex["sched"], "errors_scheduled": got,
                                                            "errors_alone": want, "problem": problem})
    ck.notes["event_level_thread_schedules"] = len(rs.exports)
    # ---- threads: whole validations run concurrently, compared with the solo runs ---------------------------------
    old = sys.getswitchinterval()
    sys.setswitchinterval(1e-6)
    try:
        rounds = 30 if quick else 400
        for gi, (d, grp, table) in enumerate(meta):
            want = solos.get(gi) or [solo(d, m) for m in grp]
            for rnd in range(rounds):
                vals = [build(d, m, real=True) for m in grp]
                res = [None] * len(grp)
                barrier = threading.Barrier(len(grp))
                insts = instances_for(grp)
                if all(m.get("remote") for m in grp):
                    meet = threading.Barrier(len(grp), timeout=0.3)
                    for v_, r_ in vals:
                        r_.meeting_handler.meet = meet

                def work(i):
                    try:
                        barrier.wait()
                        res[i] = collect(vals[i][0].iter_errors(insts[i]))
                    except Exception as e:  # noqa
                        res[i] = "%s: %s" % (type(e).__name__, str(e)[:80])
                ts = [threading.Thread(target=work, args=(i,)) for i in range(len(grp))]
                for t in ts:
                    t.start()
                for t in ts:
                    t.join()
                ck.count((d, gi, "threads", rnd), True)
                if res != want:
                    ck.violation("threads_change_errors", {"draft": d, "schemas": [m["schema"] for m in grp],
                                                           "errors_threaded": res, "errors_alone": want})
                    break
    finally:
        sys.setswitchinterval(old)
    return ck.finish()
