"""C19 - CLI: exit status, diagnostics and per-instance processing follow the library."""
import io
import json
import os
import re
import shutil
import subprocess
import sys
import tempfile

from harness import tlc
from harness.common import Check, import_lib, REPO

SEP = "\x1e"
EFMT = SEP + "{error.message}" + SEP + "{error.validator}" + SEP + "\n"
SCHEMA = {"type": "object", "required": ["a"], "properties": {"b": {"type": "integer"}}, "maxProperties": 2}
INST = {"valid": {"a": 1, "b": 2}, 1: {"a": 1, "b": "x"}, 2: {"b": "x"}, 3: {"b": "x", "c": 1, "d": 2}}
D4 = "http://json-schema.org/draft-04/schema#"
D3 = "http://json-schema.org/draft-03/schema#"


class Env(object):
    def __init__(self):
        self.dir = tempfile.mkdtemp(prefix="c19-")
        self.n = 0

    def path(self, name):
        return os.path.join(self.dir, name)

    def write(self, name, text):
        with open(self.path(name), "w") as f:
            f.write(text)
        return self.path(name)

    def close(self):
        shutil.rmtree(self.dir, ignore_errors=True)


def bad_schema(variant):
    """the document written when the model says the schema is invalid: invalid for every draft, or (variant d3_explicit)
    invalid only for the class named by --validator -- whose verdict is the one that counts"""
    return {"type": "object", "required": ["a"]} if variant.get("d3_explicit") else {"type": 12}


def materialise(env, schema_state, insts, variant):
    """files for one run; returns (argv, per-instance (path, kind), schema object or None)"""
    env.n += 1
    tag = "r%d" % env.n
    schema = dict(SCHEMA)
    if variant.get("dollar_schema7"):
        schema["$schema"] = "http://json-schema.org/draft-07/schema#"     # ... but an explicit --validator always wins
    if variant.get("dollar_schema"):
        schema["$schema"] = D4
        schema["additionalProperties"] = False if variant.get("strict") else True
    if variant.get("d4_only"):
        # well-formed for the class named by --validator (Draft 4: boolean exclusiveMinimum), not for the default class
        schema = dict(SCHEMA, minimum=0, exclusiveMinimum=True)
    if variant.get("root_id"):
        # a draft 4 document with its own root `id` (not where the file lives) and references into itself, written both
        # as a bare fragment and relative to that id; the class comes from $schema and honours `id`
        schema = {"$schema": D4, "id": "http://cli.invalid/dir/root.json", "type": "object", "required": ["a"],
                  "definitions": {"int": {"type": "integer"}, "any": {}},
                  "properties": {"b": {"$ref": "#/definitions/int"}, "a": {"$ref": "root.json#/definitions/any"}},
                  "maxProperties": 2}
    if variant.get("base_uri"):
        # the same schema text every time; what "sub.json" means is decided by --base-uri alone (a directory per run)
        schema = {"properties": {"b": {"$ref": "sub.json"}}, "required": ["a"], "type": "object", "maxProperties": 2}
        os.makedirs(env.path(tag))
        env.write(tag + "/sub.json", json.dumps({"type": "integer"}))
        os.makedirs(env.path(tag + "-elsewhere"))
        env.write(tag + "-elsewhere/sub.json", json.dumps({"type": "string"}))
    sp = env.path("schema-%s.json" % tag)
    if schema_state == "notjson":
        env.write("schema-%s.json" % tag, "{not json")
    elif schema_state == "invalid":
        env.write("schema-%s.json" % tag, json.dumps(bad_schema(variant)))
    elif schema_state == "valid":
        env.write("schema-%s.json" % tag, json.dumps(schema))
    argv = []
    files = []
    for i, kind in enumerate(insts):
        p = env.path("inst-%s-%d.json" % (tag, i + 1))
        if kind["k"] == "notjson":
            env.write(os.path.basename(p), "[1, 2")
        elif kind["k"] == "valid":
            env.write(os.path.basename(p), json.dumps(INST["valid"]))
        elif kind["k"] == "invalid":
            inst = INST[kind["n"]]
            if variant.get("dollar_schema7") and kind["n"] == 1:
                inst = {"a": 1, "b": 2.0}       # an integer only from draft 6 on: the drafts disagree
            if variant.get("null_instance") and kind["n"] == 1:
                inst = None                     # the document `null`: loads fine, fails `type` (one error)
            env.write(os.path.basename(p), json.dumps(inst))
        files.append((p, kind))
        argv += ["-i", p]
    if variant.get("pretty"):
        argv += ["--output", "pretty"]
    elif variant.get("custom_format"):
        argv += ["--error-format", EFMT]
    elif variant.get("empty_format"):
        argv += ["--error-format", ""]
    if variant.get("explicit_validator"):
        argv += ["--validator", "Draft4Validator"]
    if variant.get("d3_explicit"):
        argv += ["--validator", "Draft3Validator"]
    if variant.get("base_uri"):
        argv += ["--base-uri", "file://" + env.path(tag) + "/"]
    argv.append(sp)
    return argv, files, (schema if schema_state == "valid" else None), sp


def parse_streams(out, err, files, sp, variant, lib_errors):
    """stdout/stderr text -> abstract records.  Returns (err_records, out_records, problems)"""
    idx = {p: i + 1 for i, (p, _) in enumerate(files)}
    idx[sp] = 0
    idx["<stdin>"] = 1
    errs, outs, problems = [], [], []
    if variant.get("pretty"):
        for m in re.finditer(r"===\[(\w+)\]===\((.*?)\)===\n\n(.*?)\n-{29}\n", err, re.S):
            typ, path, body = m.group(1), m.group(2), m.group(3)
            i = idx.get(path, -1)
            if typ == "FileNotFoundError":
                errs.append({"t": "notfound", "i": i})
            elif typ == "JSONDecodeError":
                errs.append({"t": "parse", "i": i})
            elif typ == "SchemaError":
                errs.append({"t": "schemaerr"})
            elif typ == "ValidationError":
                errs.append({"t": "verr", "i": i, "body": body})
            else:
                problems.append("unknown pretty record type %s" % typ)
        rest = re.sub(r"===\[(\w+)\]===\((.*?)\)===\n\n(.*?)\n-{29}\n", "", err, flags=re.S)
        if rest.strip():
            problems.append("unparsed stderr: %r" % rest[:80])
        for m in re.finditer(r"===\[SUCCESS\]===\((.*?)\)===\n", out):
            outs.append({"t": "success", "i": idx.get(m.group(1), -1)})
        if re.sub(r"===\[SUCCESS\]===\((.*?)\)===\n", "", out).strip():
            problems.append("unparsed stdout: %r" % out[:80])
    else:
        if out:
            problems.append("plain mode wrote to stdout: %r" % out[:80])
        pos = 0
        text = err
        while pos < len(text):
            m = re.compile(r"'(.*?)' does not exist\.\n").match(text, pos)
            if m:
                errs.append({"t": "notfound", "i": idx.get(m.group(1), -1)})
                pos = m.end()
                continue
            m = re.compile(r"Failed to parse (?:'(.*?)'|<stdin>): .*?\n").match(text, pos)
            if m:
                errs.append({"t": "parse", "i": idx.get(m.group(1) or "<stdin>", -1)})
                pos = m.end()
                continue
            if variant.get("custom_format") and text.startswith(SEP, pos):
                m = re.compile(SEP + "(.*?)" + SEP + "(.*?)" + SEP + "\n", re.S).match(text, pos)
                if m:
                    errs.append({"t": "raw", "msg": m.group(1)})
                    pos = m.end()
                    continue
            # default format "{error.instance}: {error.message}\n": matched against the library's own errors
            matched = False
            for key, lst in lib_errors.items():
                for (inst_repr, msg) in lst:
                    line = "%s: %s\n" % (inst_repr, msg)
                    if text.startswith(line, pos):
                        errs.append({"t": "raw", "msg": msg})
                        pos += len(line)
                        matched = True
                        break
                if matched:
                    break
            if not matched:
                problems.append("unparsed stderr at %d: %r" % (pos, text[pos:pos + 80]))
                break
    return errs, outs, problems


def attribute(errs, files, schema_obj, lib_errors, sp, pretty):
    """turn "raw"/"verr" records into [t verr, i, j] using the library's own errors of each instance, in order"""
    out = []
    cursor = {}
    cur_i = None
    seq = []
    # instance errors appear grouped per instance in list order: walk through the instances in order
    k = 0
    order = [i + 1 for i in range(len(files))]
    pending = {i: list(lib_errors.get(i, [])) for i in order}
    inst_ptr = 0
    for e in errs:
        if e["t"] == "raw" and lib_errors.get("schema") and e["msg"] == lib_errors["schema"][0][1]:
            out.append({"t": "schemaerr"})
            continue
        if e["t"] in ("notfound", "parse", "schemaerr"):
            out.append({k2: v for k2, v in e.items()})
            continue
        if e["t"] == "verr" and pretty:
            i = e["i"]
            j = cursor.get(i, 0) + 1
            cursor[i] = j
            want = pending.get(i, [])
            ok = j <= len(want) and want[j - 1][1] in e["body"]
            out.append({"t": "verr", "i": i, "j": j} if ok else {"t": "verr", "i": -1, "j": j})
            continue
        # raw message (plain mode): belongs to the first instance (in order) that still expects this message next
        placed = False
        for i in order:
            j = cursor.get(i, 0)
            want = pending.get(i, [])
            if j < len(want) and want[j][1] == e["msg"]:
                cursor[i] = j + 1
                out.append({"t": "verr", "i": i, "j": j + 1})
                placed = True
                break
            if j < len(want):
                break
        if not placed:
            out.append({"t": "verr", "i": -1, "j": 0})
    return out


def run_case(js, env, schema_state, insts, variant, subprocess_too=False):
    from jsonschema import cli
    argv, files, schema_obj, sp = materialise(env, schema_state, insts, variant)
    # what the library itself reports for each instance (the CLI must report exactly these, in this order)
    lib_errors = {}
    if schema_obj is not None:
        cls = js.Draft4Validator if (variant.get("explicit_validator") or variant.get("dollar_schema") or variant.get("root_id")) else js.Draft7Validator
        for i, (p, kind) in enumerate(files):
            if kind["k"] in ("valid", "invalid"):
                inst = json.load(open(p))
                if variant.get("base_uri"):
                    v = cls(schema_obj, resolver=js.RefResolver(base_uri=argv[argv.index("--base-uri") + 1], referrer=schema_obj))
                else:
                    v = cls(schema_obj)
                lib_errors[i + 1] = [("{}".format(e.instance), e.message) for e in v.iter_errors(inst)]
    if schema_state == "invalid":
        cls0 = js.Draft3Validator if variant.get("d3_explicit") else js.Draft4Validator if variant.get("explicit_validator") else js.Draft7Validator
        try:
            cls0.check_schema(bad_schema(variant))
        except js.exceptions.SchemaError as e:
            lib_errors["schema"] = [("{}".format(e.instance), e.message)]
    stdin_text = None
    if variant.get("stdin"):
        argv = [a for a in argv if a != "-i" and not os.path.basename(a).startswith("inst-")]
        p, kind = files[0]
        stdin_text = open(p).read()
        files = [("<stdin>", kind)]
    if variant.get("base_uri"):
        # an earlier run in this process, same schema file, another --base-uri (where sub.json says something else)
        other = list(argv)
        other[other.index("--base-uri") + 1] = other[other.index("--base-uri") + 1][:-1] + "-elsewhere/"
        try:
            cli.run(arguments=cli.parse_args(other), stdout=io.StringIO(), stderr=io.StringIO(), stdin=io.StringIO(stdin_text or ""))
        except BaseException:  # noqa
            pass
    out, err = io.StringIO(), io.StringIO()
    try:
        code = cli.run(arguments=cli.parse_args(argv), stdout=out, stderr=err, stdin=io.StringIO(stdin_text or ""))
    except SystemExit as e:
        code = e.code
    except Exception as e:  # noqa
        return None, {"crash": "%s: %s" % (type(e).__name__, str(e)[:100]), "argv": argv}
    errs, outs, problems = parse_streams(out.getvalue(), err.getvalue(), files, sp, variant, lib_errors)
    errs = attribute(errs, files, schema_obj, lib_errors, sp, variant.get("pretty"))
    info = {"argv": [a.replace(env.dir, "<dir>") for a in argv], "exit": code, "stderr": err.getvalue().replace(env.dir, "<dir>")[:600],
            "stdout": out.getvalue().replace(env.dir, "<dir>")[:300], "parse_problems": problems,
            "library_errors_per_instance": {k: [m for _, m in v] for k, v in lib_errors.items()}}
    if subprocess_too:
        p = subprocess.run([sys.executable, "-m", "jsonschema"] + argv, cwd=REPO, input=stdin_text or "", stdout=subprocess.PIPE,
                           stderr=subprocess.PIPE, universal_newlines=True, env=dict(os.environ, PYTHONPATH=REPO))
        info["subprocess"] = {"exit": p.returncode, "same_stderr": p.stderr == err.getvalue(), "same_stdout": p.stdout == out.getvalue()}
    return {"code": int(bool(code)) if code in (0, 1, True, False) else 2, "err": errs, "out": outs}, info


def n_of(kind, lib_n):
    return kind


def main(args):
    ck = Check("C19", args.tier, args.seed)
    js = import_lib()
    quick = args.tier == "quick"
    ck.rule = ("runs = final states of spec/mc/MC_C19 (schema file missing / not JSON / invalid / valid x every list of <= %d "
               "instances over {missing, not JSON, valid, invalid with 1 error, invalid with 2 errors} x plain / pretty); TLC "
               "checks exit-0-iff-everything-succeeded, every-instance-processed, plain-stdout-empty and monotone exit code, "
               "and exports the expected exit code and record sequences; each run is executed with real files through "
               "cli.run (and a sample through `python -m jsonschema`) in the variants default error format / custom "
               "--error-format / an empty --error-format / a draft 4 schema with a root id and references into itself / explicit --validator / class from $schema / explicit --validator against a schema declaring another draft / a schema that is well-formed (or ill-formed) only for the class named by --validator / --base-uri with a relative file reference (after a run of the same schema file under another --base-uri) / an instance document that is `null` / "
               "instance on stdin, stdout and stderr are parsed back into records and each validation error is attributed by "
               "comparison with the library's own iter_errors; plus random longer lists judged by TLC (Trace_C19). "
               "Non-trivial: a valid schema and >= 2 instances of different kinds; distinct by (inputs, variant)." % (2 if quick else 3))
    r = tlc.run("mc/MC_C19.tla", cfg="mc/MC_C19_%s.cfg" % args.tier, workers=8, timeout=3000, coverage=True)
    if r.violation:
        raise tlc.MachineryFailure("CLI model violated: " + r.violation)
    ck.add_tlc(r, "MC_C19")
    env = Env()
    variants_plain = [{}, {"null_instance": True}, {"explicit_validator": True, "d4_only": True, "custom_format": True}, {"custom_format": True}, {"empty_format": True}, {"root_id": True, "custom_format": True}, {"explicit_validator": True, "custom_format": True}, {"dollar_schema": True},
                      {"explicit_validator": True, "dollar_schema7": True, "custom_format": True},
                      {"base_uri": True, "custom_format": True}]
    try:
        for n, ex in enumerate(r.exports):
            vs = [{"pretty": True}, {"pretty": True, "explicit_validator": True}, {"pretty": True, "null_instance": True}] if ex["pretty"] else variants_plain
            if ex["schema"] == "invalid":
                vs = vs + [dict(vs[0], d3_explicit=True)]
            if len(ex["insts"]) == 1 and ex["insts"][0]["k"] in ("valid", "invalid", "notjson"):
                vs = vs + [dict(vs[0], stdin=True), dict(vs[0], stdin=True, null_instance=True)]
            for vi, variant in enumerate(vs):
                got, info = run_case(js, env, ex["schema"], ex["insts"], variant, subprocess_too=(n % 41 == 0 and vi == 0))
                ck.replayed += 1
                ck.count((ex["schema"], repr(ex["insts"]), repr(variant)), ex["schema"] == "valid" and len({i["k"] for i in ex["insts"]}) >= 2)
                case = dict(info or {}, schema_file=ex["schema"], instances=ex["insts"], variant=variant,
                            expected={"exit_nonzero": bool(ex["code"]), "stderr_records": ex["err"], "stdout_records": ex["out"]},
                            source="MC_C19")
                if got is None:
                    ck.violation("cli_crash", case)
                    continue
                case["observed"] = got
                if bool(got["code"]) != bool(ex["code"]):
                    ck.violation("exit_status", case)
                want_err = ex["err"]
                if variant.get("empty_format"):
                    # every validation / schema error is written through the format the user gave -- the empty one:
                    # only the diagnostics for unreadable / unparsable files remain visible
                    want_err = [e for e in want_err if e["t"] in ("notfound", "parse")]
                if got["err"] != want_err or info["parse_problems"]:
                    ck.violation("stderr_records", case)
                if got["out"] != ex["out"]:
                    ck.violation("stdout_records", case)
                sp = info.get("subprocess")
                if sp and (bool(sp["exit"]) != bool(ex["code"]) or not sp["same_stderr"] or not sp["same_stdout"]):
                    ck.violation("subprocess_differs", case)
                if len(ck.samples) < 2 and len(ex["insts"]) == 2 and ex["schema"] == "valid" and vi == 1:
                    ck.sample({"argv": info["argv"], "exit": info["exit"], "stderr": info["stderr"], "expected_records": ex["err"]})
        ck.exhaustive = True
        # ---- random longer lists, judged by TLC ---------------------------------------------------------------
        kinds = [{"k": "missing", "n": 0}, {"k": "notjson", "n": 0}, {"k": "valid", "n": 0}, {"k": "invalid", "n": 1},
                 {"k": "invalid", "n": 2}, {"k": "invalid", "n": 3}]
        recs, real = [], {}
        for i in range(150 if quick else 3000):
            schema_state = ck.rng.choice(["valid"] * 6 + ["missing", "notjson", "invalid"])
            insts = [ck.rng.choice(kinds) for _ in range(ck.rng.randrange(1, 7))]
            variant = ck.rng.choice([{"pretty": True}, {}, {"custom_format": True}, {"custom_format": True, "explicit_validator": True}])
            got, info = run_case(js, env, schema_state, insts, variant)
            ck.count((schema_state, repr(insts), repr(variant)), True)
            if got is None:
                ck.violation("cli_crash", dict(info, schema_file=schema_state, instances=insts, variant=variant))
                continue
            if info["parse_problems"]:
                ck.violation("stderr_records", dict(info, schema_file=schema_state, instances=insts, variant=variant))
                continue
            recs.append({"id": i, "schema": schema_state, "insts": insts, "pretty": bool(variant.get("pretty")),
                         "code": got["code"], "err": got["err"], "out": got["out"]})
            real[i] = dict(info, schema_file=schema_state, instances=insts, variant=variant, observed=got)
    finally:
        env.close()
    bad, states = tlc.validate_trace("trace/Trace_C19.tla", recs, "c19", shards=4)
    ck.states += states
    ck.transitions += states
    ck.validated += len(recs)
    for b in bad:
        for clause in b["clauses"]:
            ck.violation(clause, dict(real[b["id"]], source="Trace_C19"))
    return ck.finish()
