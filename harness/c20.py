"""C20 - the draft is chosen from $schema, consistently in validate(), the CLI and helpers."""
import io
import json
import os
import shutil
import tempfile
import warnings

from harness import tlc
from harness.common import Check, import_lib

IDS = {"std3": "http://json-schema.org/draft-03/schema", "std4": "http://json-schema.org/draft-04/schema",
       "std6": "http://json-schema.org/draft-06/schema", "std7": "http://json-schema.org/draft-07/schema",
       "new1": "http://x.invalid/meta/new1", "new2": "http://y.invalid/meta/new2", "new3": "http://x.invalid/meta/new3.json", "unknown": "http://x.invalid/no-such-metaschema",
       "nonuri": "not a uri at all"}
# (schema body, instance) pairs on which the drafts disagree
PAIRS = [({"type": "integer"}, 1.0), ({"const": 1}, 2), ({"if": {"type": "integer"}, "then": {"minimum": 5}}, 1),
         ({"contains": {"type": "string"}}, [1]), ({"minimum": 1, "exclusiveMinimum": True}, 1), ({"divisibleBy": 2}, 3),
         ({"items": [True, False]}, [1, 2]), ({"propertyNames": {"maxLength": 1}}, {"ab": 1}), ({"type": "any"}, 1),
         ({"required": ["a"]}, {}), ({"dependencies": {"a": "b"}}, {"a": 1}),
         # a document with a root `id` (drafts 3/4 read it, drafts 6/7 do not) and references into itself
         ({"id": "http://cli.invalid/dir/root.json", "definitions": {"int": {"type": "integer"}},
           "properties": {"b": {"$ref": "#/definitions/int"}, "c": {"$ref": "root.json#/definitions/int"}}}, {"b": "x"}),
         # a schema only the LATER classes accept (their "array" admits tuples): the stock classes raise SchemaError
         ({"enum": (1, 2)}, 3)]


def outcome(js, fn):
    exc = js.exceptions
    try:
        fn()
        return ("valid",)
    except exc.SchemaError as e:
        return ("schemaerror", e.message)
    except exc.ValidationError as e:
        return ("invalid", e.message, list(e.absolute_path), e.validator)
    except Exception as e:  # noqa
        return ("raises", type(e).__name__)


def main(args):
    ck = Check("C20", args.tier, args.seed)
    js = import_lib()
    import jsonschema.validators as V
    from jsonschema import cli
    quick = args.tier == "quick"
    ck.rule = ("queries = final states of spec/mc/MC_C20: <= %d later registrations (create(version=...) from the tables of any "
               "draft class under fresh metaschema ids) followed by validator_for(schema, default) for every $schema spelling "
               "(each registered id with / without '#', with a NON-empty fragment, unknown URI, non-URI string, absent, "
               "boolean schema) and both defaults; TLC checks that existing registrations are kept and later classes are "
               "selectable, and exports the selected class and whether a DeprecationWarning is due. Replay: real "
               "registrations (registries restored afterwards; for every other history the same spelling is also dispatched once before the registrations), validator_for with warnings captured, then "
               "jsonschema.validate() -- and for a sample the CLI -- on 13 (schema, instance) pairs on which the drafts "
               "(and the later classes, whose arrays admit tuples) disagree must behave exactly as the selected class applied to its own metaschema and to the instance (and an explicitly given class must win). "
               "Non-trivial: the spelling names a registered id; distinct by (registrations, spelling, default)." % (2 if quick else 3))
    r = tlc.run("mc/MC_C20.tla", cfg="mc/MC_C20_%s.cfg" % args.tier, workers=8, timeout=3000, coverage=True)
    if r.violation:
        raise tlc.MachineryFailure("selection model violated: " + r.violation)
    ck.add_tlc(r, "MC_C20")
    base_classes = [js.Draft3Validator, js.Draft4Validator, js.Draft6Validator, js.Draft7Validator]
    tmp = tempfile.mkdtemp(prefix="c20-")
    try:
        # what the model says for each spelling while nothing has been registered yet
        initially = {(json.dumps(ex["q"]["sp"], sort_keys=True), ex["q"]["dflt"]): ex["q"] for ex in r.exports if not ex["regs"]}
        for n, ex in enumerate(r.exports):
            snap = (dict(V.validators), dict(V.meta_schemas.store))
            try:
                classes = list(base_classes)
                if ex["regs"] and n % 2 == 0 and ex["q"]["sp"]["base"] not in ("absent", "boolean"):
                    # the same spelling is dispatched once BEFORE the registrations (nothing about that first answer
                    # may stick: the registry is consulted anew each time)
                    q0 = initially[(json.dumps(ex["q"]["sp"], sort_keys=True), ex["q"]["dflt"])]
                    with warnings.catch_warnings(record=True) as w0:
                        warnings.simplefilter("always")
                        got0 = V.validator_for({"$schema": IDS[ex["q"]["sp"]["base"]] + ex["q"]["sp"]["suf"]}, default=classes[ex["q"]["dflt"] - 1])
                    if got0 is not classes[q0["c"] - 1] or any(issubclass(x.category, DeprecationWarning) for x in w0) != q0["warn"]:
                        ck.violation("wrong_class_selected", {"registrations": [], "$schema": IDS[ex["q"]["sp"]["base"]] + ex["q"]["sp"]["suf"],
                                                              "model_selects": "class #%d" % q0["c"], "model_warns": q0["warn"],
                                                              "validator_for_returned": getattr(got0, "__name__", str(got0))})
                for reg in ex["regs"]:
                    b = classes[reg["c"] - 1]
                    meta = dict(b.META_SCHEMA)
                    meta.pop("id", None)
                    meta.pop("$id", None)
                    meta["id" if reg["c"] <= 2 else "$id"] = IDS[reg["metaid"]]      # the key this class reads ids from
                    with warnings.catch_warnings():
                        warnings.simplefilter("ignore")
                        classes.append(V.create(meta_schema=meta, validators=b.VALIDATORS, version=reg["version"],
                                                type_checker=b.TYPE_CHECKER.redefine("array", lambda c, x: isinstance(x, (list, tuple))),
                                                id_of=b.ID_OF))
                q = ex["q"]
                sp = q["sp"]
                want = classes[q["c"] - 1]
                dflt = classes[q["dflt"] - 1]
                for body, inst in (PAIRS if n % 7 == 0 else PAIRS[: 3 + n % 4] + PAIRS[-2:]):
                    if sp["base"] == "boolean":
                        schema = True
                    elif sp["base"] == "absent":
                        schema = dict(body)
                    else:
                        schema = dict(body, **{"$schema": IDS[sp["base"]] + sp["suf"]})
                    with warnings.catch_warnings(record=True) as w:
                        warnings.simplefilter("always")
                        got = V.validator_for(schema, default=dflt) if q["dflt"] != 4 else (
                            V.validator_for(schema) if n % 2 else V.validator_for(schema, default=dflt))
                    warned = any(issubclass(x.category, DeprecationWarning) for x in w)
                    ck.replayed += 1
                    ck.count((repr(ex["regs"]), repr(sp), q["dflt"], repr(body)), sp["base"] in ("std3", "std4", "std6", "std7", "new1", "new2", "new3"))
                    case = {"registrations": ex["regs"], "asked_before_registering": bool(ex["regs"] and n % 2 == 0), "$schema": None if sp["base"] in ("absent", "boolean") else IDS[sp["base"]] + sp["suf"],
                            "schema": schema, "instance": inst, "default": dflt.__name__,
                            "model_selects": "%s (class #%d)" % (want.__name__, q["c"]), "model_warns": q["warn"],
                            "validator_for_returned": getattr(got, "__name__", str(got)), "warned": warned, "source": "MC_C20"}
                    if got is not want:
                        ck.violation("wrong_class_selected", case)
                        continue
                    if warned != q["warn"]:
                        ck.violation("deprecation_warning", case)
                    # validate() behaves as the selected class (when the default is the library's own)
                    if q["dflt"] == 4:
                        with warnings.catch_warnings():
                            warnings.simplefilter("ignore")
                            a = outcome(js, lambda: js.validate(inst, schema))
                            b_ = as_class(js, want, schema, inst)
                            e_ = outcome(js, lambda: js.validate(inst, schema, cls=js.Draft3Validator))
                            e2 = as_class(js, js.Draft3Validator, schema, inst)
                            d3_says = e2
                            if len(classes) > 4:      # ... also when the explicitly given class is a later one
                                e_ = (e_, outcome(js, lambda: js.validate(inst, schema, cls=classes[-1])))
                                e2 = (e2, as_class(js, classes[-1], schema, inst))
                        if a != b_:
                            ck.violation("validate_differs_from_selected_class", dict(case, validate=a, selected_class=b_))
                        if e_ != e2:
                            ck.violation("explicit_class_does_not_win", dict(case, validate=e_, explicit_class=e2))
                        if (n % 23 == 0 or (n % 3 == 0 and "id" in body)) and isinstance(schema, dict) and "enum" not in body:
                            sp_path = os.path.join(tmp, "s.json")
                            ip = os.path.join(tmp, "i.json")
                            json.dump(schema, open(sp_path, "w"))
                            json.dump(inst, open(ip, "w"))
                            so, se = io.StringIO(), io.StringIO()
                            with warnings.catch_warnings():
                                warnings.simplefilter("ignore")
                                try:
                                    code = cli.run(cli.parse_args(["-i", ip, sp_path]), stdout=so, stderr=se)
                                except Exception as e:  # noqa
                                    code = "crash: %s: %s" % (type(e).__name__, str(e)[:100])
                                # ... and with an explicitly named class, which wins over whatever $schema says
                                so3, se3 = io.StringIO(), io.StringIO()
                                try:
                                    code3 = cli.run(cli.parse_args(["-i", ip, "--validator", "Draft3Validator", sp_path]), stdout=so3, stderr=se3)
                                except Exception as e:  # noqa
                                    code3 = "crash: %s: %s" % (type(e).__name__, str(e)[:100])
                            if d3_says[0] in ("valid", "invalid", "schemaerror") and (isinstance(code3, str) or (code3 == 0) != (d3_says[0] == "valid")):
                                ck.violation("cli_explicit_class_does_not_win", dict(case, cli_exit=code3, explicit_class=d3_says, stderr=se3.getvalue()[:200]))
                            lib_ok = b_[0] == "valid"
                            if b_[0] in ("valid", "invalid", "schemaerror") and (isinstance(code, str) or (code == 0) != lib_ok):
                                ck.violation("cli_differs_from_selected_class", dict(case, cli_exit=code, selected_class=b_, stderr=se.getvalue()[:200]))
                    if len(ck.samples) < 3 and sp["suf"] == "#" and ex["regs"] and sp["base"].startswith("new"):
                        ck.sample(case)
            finally:
                V.validators.clear()
                V.validators.update(snap[0])
                V.meta_schemas.store.clear()
                V.meta_schemas.store.update(snap[1])
    finally:
        shutil.rmtree(tmp, ignore_errors=True)
    ck.exhaustive = True
    return ck.finish()


def as_class(js, cls, schema, inst):
    """what `cls` itself says: its own keyword tables and type checker applied to its own metaschema, then to the instance"""
    first = next(cls(cls.META_SCHEMA).iter_errors(schema), None)
    if first is not None:
        return ("schemaerror", first.message)
    return outcome(js, lambda: _raise_best(js, cls, schema, inst))


def _raise_best(js, cls, schema, inst):
    e = js.exceptions.best_match(cls(schema).iter_errors(inst))
    if e is not None:
        raise e
