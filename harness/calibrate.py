"""Calibration of spec/Semantics.tla against the official JSON-Schema-Test-Suite bundled in /repo/json:
TLC must reproduce the suite's expected verdict for every case (DESIGN.md 3 / 5 C01 "oracle independence")."""
import glob
import json
import os
import sys

from harness import tlc, regex
from harness.common import REPO, VERIF
from harness.encode import enc, enc_str, Unencodable

META_IDS = {3: "http://json-schema.org/draft-03/schema", 4: "http://json-schema.org/draft-04/schema",
            6: "http://json-schema.org/draft-06/schema", 7: "http://json-schema.org/draft-07/schema"}


def load_meta():
    return {d: json.load(open(os.path.join(REPO, "jsonschema", "schemas", "draft%d.json" % d))) for d in (3, 4, 6, 7)}


def write_lib(path, extra=()):
    """the store documents every resolver knows: the bundled metaschemas (as they are in the working tree);
    plus `extra` [(uri, document)]"""
    lib = [{"u": enc_str(META_IDS[d]), "doc": enc(m)} for d, m in load_meta().items()]
    for u, doc in extra:
        lib.append({"u": enc_str(u), "doc": enc(doc)})
    with open(path, "w") as f:
        json.dump(lib, f, separators=(",", ":"))
    return path


def suite_remotes():
    out = []
    root = os.path.join(REPO, "json", "remotes")
    for dp, _, fns in os.walk(root):
        for fn in fns:
            if fn.endswith(".json"):
                p = os.path.join(dp, fn)
                rel = os.path.relpath(p, root).replace(os.sep, "/")
                out.append(("http://localhost:1234/" + rel, json.load(open(p))))
    return out


SKIP_FILES = ("optional/format", "optional/ecmascript-regex", "optional/content", "optional/non-bmp-regex")
# Draft 4 optional/float-overflow expects {"type": "integer", "multipleOf": 0.5} to accept 1e308, i.e. it presumes that
# a number written with an exponent is a Draft 4 "integer".  Draft 4 defines integer as "a JSON number without a
# fraction or exponent part"; the specification (and C01's anchor) reads: Draft 3/4 integer = a number held as an
# integer, integer-valued floats only from Draft 6.  The case is optional in the suite and is left out here.
SKIP_CASES = {(4, "optional/float-overflow.json")}


def suite_cases():
    for d in (3, 4, 6, 7):
        base = os.path.join(REPO, "json", "tests", "draft%d" % d)
        for p in sorted(glob.glob(os.path.join(base, "**", "*.json"), recursive=True)):
            rel = os.path.relpath(p, base)
            if any(rel.startswith(s) for s in SKIP_FILES) or (d, rel) in SKIP_CASES:
                continue
            for ci, case in enumerate(json.load(open(p))):
                for ti, t in enumerate(case["tests"]):
                    yield d, rel, ci, ti, case, t


def id_of(d, schema):
    if not isinstance(schema, dict):
        return ""
    v = schema.get("id" if d <= 4 else "$id", "")
    return v if isinstance(v, str) else ""


def record(i, d, schema, instance, valid, uselib=True):
    return {"id": i, "d": d, "S": enc(schema), "I": enc(instance), "base": enc_str(id_of(d, schema)),
            "pats": regex.pats_table([schema]), "uselib": uselib, "valid": valid}


def main():
    wd = tlc.workdir("calib")
    lib = write_lib(os.path.join(wd, "lib.json"), suite_remotes())
    recs, info = [], {}
    for i, (d, rel, ci, ti, case, t) in enumerate(suite_cases()):
        try:
            recs.append(record(i, d, case["schema"], t["data"], t["valid"]))
        except Unencodable as e:
            print("unencodable", d, rel, case["description"], e)
            continue
        info[i] = (d, rel, case["description"], t["description"], t["valid"])
    bad, states = tlc.validate_trace("trace/Trace_Verdict.tla", recs, "calib", shards=16, env={"LIB_FILE": lib}, heap="3g")
    tlc.cleanup("calib")
    n_bad = 0
    skipped = {}
    for b in bad:
        for c in b["clauses"]:
            if c.startswith("~"):
                skipped.setdefault(c, []).append(info[b["id"]])
            else:
                n_bad += 1
                print("MISMATCH", c, info[b["id"]])
    print("calibration: %d cases, %d mismatches, skipped: %s" % (len(recs), n_bad, {k: len(v) for k, v in skipped.items()}))
    if "-v" in sys.argv:
        for k, v in skipped.items():
            for x in v:
                print(k, x)
    return 1 if n_bad else 0


if __name__ == "__main__":
    sys.exit(main())
