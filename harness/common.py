"""Shared plumbing of the checks: importing the code under test, violations, known findings, evidence."""
import hashlib
import json
import os
import random
import sys
import time

VERIF = os.path.dirname(os.path.dirname(os.path.abspath(__file__)))
REPO = os.environ.get("VERIF_REPO", "/repo")
OUT = os.environ.get("VERIF_OUT", VERIF)   # evidence/ and replays/ go here (scratch dir when testing seeded changes)

if sys.path[0] != REPO:
    sys.path.insert(0, REPO)
os.environ.setdefault("PYTHONHASHSEED", "0")


def import_lib():
    """Import jsonschema from the tree under test (the current working tree of /repo by default)."""
    cur = sys.modules.get("jsonschema")
    if cur is not None and os.path.realpath(os.path.dirname(os.path.dirname(cur.__file__))) == os.path.realpath(REPO):
        return cur
    for m in [m for m in sys.modules if m == "jsonschema" or m.startswith("jsonschema.")]:
        del sys.modules[m]
    import jsonschema
    here = os.path.realpath(os.path.dirname(os.path.dirname(jsonschema.__file__)))
    if here != os.path.realpath(REPO):
        raise RuntimeError("jsonschema imported from %s, expected %s" % (here, REPO))
    return jsonschema


def draft_classes():
    js = import_lib()
    return {3: js.Draft3Validator, 4: js.Draft4Validator, 6: js.Draft6Validator, 7: js.Draft7Validator}


class Check(object):
    """One run of one property's check: collects counts, samples, violations; writes evidence; exit status."""

    def __init__(self, pid, tier, seed):
        self.pid = pid
        self.tier = tier
        self.seed = seed
        self.rng = random.Random(seed)
        self.t0 = time.time()
        self.states = 0
        self.transitions = 0
        self.replayed = 0          # TLC-generated cases replayed into the code
        self.validated = 0         # recorded records validated by TLC
        self.evaluations = 0
        self.distinct = set()
        self.nontrivial = set()
        self.samples = []
        self.skipped = 0
        self.violations = []       # (what, case)
        self.known_hits = {}
        self.notes = {}
        self.exhaustive = False
        self.assumptions = []
        self.rule = ""
        self.findings = load_findings(pid)

    # ---- counting -----------------------------------------------------------------------------------
    def add_tlc(self, r, model=None):
        self.states += r.distinct
        self.transitions += max(r.generated, r.distinct)
        if r.coverage:
            # vacuity guard: every named action of the model was taken (TLC -coverage: action -> states generated : distinct)
            cov = {a: list(c) for a, c in r.coverage.items()}
            self.notes.setdefault("action_coverage", {})[model or "model"] = cov
            dead = sorted(a for a, c in cov.items() if c[0] == 0 and a not in ("Init",))
            if dead:
                from harness.tlc import MachineryFailure
                raise MachineryFailure("actions never taken in %s: %s (the model is vacuous there)" % (model, dead))

    def count(self, key, nontrivial=True):
        self.evaluations += 1
        h = hashlib.blake2b(repr(key).encode("utf-8", "backslashreplace"), digest_size=8).digest()
        self.distinct.add(h)
        if nontrivial:
            self.nontrivial.add(h)

    def sample(self, s, limit=6):
        if len(self.samples) < limit:
            self.samples.append(s)

    # ---- violations ---------------------------------------------------------------------------------
    def violation(self, what, case):
        """Report a disagreement between the code and the specification on a concrete, re-executed case.
        `case` is a JSON-able dict with the real inputs, observed and expected outcome."""
        for f in self.findings:
            if f.get("status") == "open" and finding_matches(f, what, case):
                self.known_hits.setdefault(f["id"], [f, 0])
                self.known_hits[f["id"]][1] += 1
                return
        self.violations.append((what, case))

    def finish(self, level="model_checking"):
        wall = time.time() - self.t0
        os.makedirs(os.path.join(OUT, "evidence"), exist_ok=True)
        for fid, (f, n) in sorted(self.known_hits.items()):
            print("KNOWN-FINDING: property=%s %s (%s; %d case(s) this run)" % (self.pid, f["what"], fid, n))
        paths = []
        seen = set()
        for what, case in self.violations:
            core = json.dumps({"property": self.pid, "what": what, "case": case}, sort_keys=True, default=repr)
            h = hashlib.sha1(core.encode()).hexdigest()[:12]
            blob = json.dumps({"property": self.pid, "what": what, "case": case, "seed": self.seed, "tier": self.tier,
                               "replay": "./check %s --replay <this file> re-runs the %s tier with seed %d against the current tree "
                                         "and reports whether this exact case (hash %s) is still a violation" % (self.pid, self.tier, self.seed, h)},
                              sort_keys=True, default=repr)
            if h in seen:
                continue
            seen.add(h)
            d = os.path.join(OUT, "replays", self.pid)
            os.makedirs(d, exist_ok=True)
            p = os.path.join(d, h + ".json")
            with open(p, "w") as fh:
                fh.write(blob)
            paths.append((what, p))
        for what, p in paths[:20]:
            print("VIOLATION property=%s replay=%s  # %s" % (self.pid, p, what))
        if len(paths) > 20:
            print("... %d more violations (replay files written)" % (len(paths) - 20))
        cov = {
            "states": int(self.states),
            "transitions": int(self.transitions),
            "traces_validated_against_impl": int(self.replayed + self.validated),
            "tlc_cases_replayed_into_code": int(self.replayed),
            "recorded_records_validated_by_tlc": int(self.validated),
            "evaluations": int(self.evaluations),
            "distinct_nontrivial": len(self.nontrivial),
            "distinct": len(self.distinct),
            "rule": self.rule,
            "samples": self.samples or ["(none)"],
            "exhaustive": bool(self.exhaustive),
            "skipped_out_of_domain": int(self.skipped),
            "known_findings_hit": {k: v[1] for k, v in self.known_hits.items()},
        }
        cov.update(self.notes)
        if not self.assumptions:
            self.assumptions = [
                "TLC (tla2tools 1.8) evaluates the TLA+ specification correctly; the official-suite calibration and the binding "
                "self-test of setup.sh passed on this tree",
                "the encoder harness/encode.py is exact (ints/floats -> sets of binary exponents, strings -> code points) and the "
                "harness code that builds real objects from model descriptions / projects real objects to observations is right",
                "exhaustive only within the constants stated in coverage.rule; random tiers are seeded by VERIF_SEED",
                "the code under test is the working tree at %s" % REPO,
            ]
        ev = {"property_id": self.pid, "tier": self.tier, "seed": int(self.seed), "level": level,
              "coverage": cov, "assumptions": self.assumptions, "wall_s": round(wall, 2),
              "violations": len(paths)}
        with open(os.path.join(OUT, "evidence", self.pid + ".json"), "w") as fh:
            json.dump(ev, fh, indent=1, default=repr)
        print("%s %s: states=%d replayed=%d validated=%d evaluations=%d distinct_nontrivial=%d violations=%d known=%d wall=%.1fs"
              % (self.pid, self.tier, self.states, self.replayed, self.validated, self.evaluations,
                 len(self.nontrivial), len(paths), len(self.known_hits), wall))
        return 1 if paths else 0


# ---- known findings ---------------------------------------------------------------------------------
def load_findings(pid):
    p = os.path.join(VERIF, "known_findings.json")
    if not os.path.exists(p):
        return []
    return [f for f in json.load(open(p))["findings"] if pid in f.get("properties", [])]


def finding_matches(f, what, case):
    """A finding is identified by a matcher over the failing case: {"what": <clause name or prefix>,
    "where": {path.into.case: value, ...}, "pred": <name of a predicate in harness/findings_pred.py>}."""
    m = f.get("match", {})
    if "what" in m and not what.startswith(m["what"]):
        return False
    for k, v in m.get("where", {}).items():
        cur = case
        for part in k.split("."):
            if not isinstance(cur, dict) or part not in cur:
                return False
            cur = cur[part]
        if cur != v:
            return False
    if "pred" in m:
        from harness import findings_pred
        if not getattr(findings_pred, m["pred"])(what, case):
            return False
    return True


def tier_seed(argv):
    import argparse
    ap = argparse.ArgumentParser()
    ap.add_argument("--tier", default=os.environ.get("VERIF_TIER", "quick"), choices=["quick", "thorough"])
    ap.add_argument("--seed", type=int, default=int(os.environ.get("VERIF_SEED", "0") or 0))
    ap.add_argument("--replay")
    ap.add_argument("--selftest", action="store_true")
    a = ap.parse_args(argv)
    return a


def pmap(fn, items, procs=16, chunk=64):
    """parallel map over forked workers (the code under test is imported in each worker from REPO)"""
    import multiprocessing
    if len(items) < 2 * chunk:
        return [fn(x) for x in items]
    ctx = multiprocessing.get_context("fork")
    with ctx.Pool(procs) as pool:
        return pool.map(fn, items, chunksize=chunk)


def outcome_of(fn):
    """run fn(); classify: ('ok', value) or ('raise', exception class name, message)"""
    try:
        return ("ok", fn())
    except BaseException as e:  # noqa
        if isinstance(e, (KeyboardInterrupt, SystemExit)):
            raise
        return ("raise", type(e).__name__, str(e)[:200])
