"""./check driver: dispatches to harness/cNN.py; exit 0 = held, 1 = violation, 2 = machinery failure."""
import importlib
import sys
import traceback


def replay(pid, mod, args):
    """re-execute the check that produced a replay file (same tier and seed) against the current tree, outputs
    redirected to a scratch directory; exit 1 iff the very same case (same hash) is a violation again"""
    import json
    import os
    import shutil
    import tempfile
    from harness import common
    rec = json.load(open(args.replay))
    want = os.path.splitext(os.path.basename(args.replay))[0]
    args.tier, args.seed = rec.get("tier", args.tier), int(rec.get("seed", args.seed))
    scratch = tempfile.mkdtemp(prefix="replay-")
    common.OUT = scratch
    try:
        mod.main(args)
        again = os.path.exists(os.path.join(scratch, "replays", pid, want + ".json"))
    finally:
        shutil.rmtree(scratch, ignore_errors=True)
    print("REPLAY %s %s: %s" % (pid, want, "still a violation: " + rec["what"] if again else "no longer reproduced"))
    if again:
        print("VIOLATION property=%s replay=%s" % (pid, args.replay))
    return 1 if again else 0


def main(argv):
    if not argv:
        print("usage: ./check Cnn [--tier quick|thorough] [--seed N]")
        return 2
    pid = argv[0].upper()
    from harness import common, tlc
    args = common.tier_seed(argv[1:])
    try:
        mod = importlib.import_module("harness." + pid.lower())
        if args.replay:
            return replay(pid, mod, args)
        if args.selftest:
            return mod.selftest(args)
        return mod.main(args)
    except tlc.MachineryFailure as e:
        print("MACHINERY-FAILURE %s: %s" % (pid, e))
        return 2
    except Exception:
        traceback.print_exc()
        print("MACHINERY-FAILURE %s: harness exception" % pid)
        return 2


if __name__ == "__main__":
    sys.exit(main(sys.argv[1:]))
