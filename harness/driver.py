"""./check driver: dispatches to harness/cNN.py; exit 0 = held, 1 = violation, 2 = machinery failure."""
import importlib
import sys
import traceback


def main(argv):
    if not argv:
        print("usage: ./check Cnn [--tier quick|thorough] [--seed N]")
        return 2
    pid = argv[0].upper()
    from harness import common, tlc
    args = common.tier_seed(argv[1:])
    try:
        mod = importlib.import_module("harness." + pid.lower())
        if args.replay:
            return mod.replay(args)
        if args.selftest:
            return mod.selftest(args)
        return mod.main(args)
    except tlc.MachineryFailure as e:
        print("MACHINERY-FAILURE %s: %s" % (pid, e))
        return 2
    except Exception:
        traceback.print_exc()
        print("MACHINERY-FAILURE %s: harness exception" % pid)
        return 2


if __name__ == "__main__":
    sys.exit(main(sys.argv[1:]))
