"""Real JSON/Python values <-> the tagged encoding used by the TLA+ specification.

Tagged encoding (plain JSON with ASCII tags and small integers only, see DESIGN.md 4.1):

  null    {"t":"null"}
  bool    {"t":"bool","b":true}
  number  {"t":"num","neg":bool,"bits":[e1>e2>...],"fl":bool}   value = +-sum 2^e  (exact)
  string  {"t":"str","s":[code points]}
  array   {"t":"arr","e":[...]}
  object  {"t":"obj","k":[[code points]...],"v":[...]}          insertion order kept

Path elements (error paths): {"i": n} for an index, {"s":[code points]} for a key.
"""
import math

MAXBITS = 400  # numbers with more set bits than this are refused (keeps TLC sets small)


class Unencodable(Exception):
    pass


def enc_str(s):
    return [ord(c) for c in s]


def dec_str(cps):
    return "".join(chr(c) for c in cps)


def _bits_of_int(n):
    out = []
    e = n.bit_length() - 1
    while n:
        if n >> e & 1:
            out.append(e)
            n &= ~(1 << e)
        e = n.bit_length() - 1
    return out


def enc_num(x):
    if isinstance(x, bool):
        raise Unencodable("bool is not a number")
    if isinstance(x, int):
        neg = x < 0
        bits = _bits_of_int(abs(x))
        fl = False
    elif isinstance(x, float):
        if math.isnan(x) or math.isinf(x):
            raise Unencodable("non-finite float")
        neg = math.copysign(1.0, x) < 0
        num, den = abs(x).as_integer_ratio()  # den is a power of two
        sh = den.bit_length() - 1
        bits = [e - sh for e in _bits_of_int(num)]
        fl = True
    else:
        raise Unencodable("not a JSON number: %r" % type(x))
    if len(bits) > MAXBITS:
        raise Unencodable("too many set bits")
    return {"t": "num", "neg": neg, "bits": bits, "fl": fl}


def dec_num(r):
    bits = r["bits"]
    if r["fl"]:
        v = math.fsum(math.ldexp(1.0, e) for e in bits) if bits else 0.0
        # exactness: a float has <= 53 significant bits so fsum of its own bits is exact
        return -v if r["neg"] else v
    v = 0
    for e in bits:
        if e < 0:
            raise Unencodable("non-integral int")
        v |= 1 << e
    return -v if r["neg"] else v


def enc(x):
    if x is None:
        return {"t": "null"}
    if isinstance(x, bool):
        return {"t": "bool", "b": x}
    if isinstance(x, (int, float)):
        return enc_num(x)
    if isinstance(x, str):
        return {"t": "str", "s": enc_str(x)}
    if isinstance(x, (list, tuple)):
        return {"t": "arr", "e": [enc(i) for i in x]}
    if isinstance(x, dict):
        ks, vs = [], []
        for k, v in x.items():
            if not isinstance(k, str):
                raise Unencodable("non-string key")
            ks.append(enc_str(k))
            vs.append(enc(v))
        return {"t": "obj", "k": ks, "v": vs}
    raise Unencodable("not JSON: %r" % type(x))


def dec(r):
    t = r["t"]
    if t == "null":
        return None
    if t == "bool":
        return bool(r["b"])
    if t == "num":
        return dec_num(r)
    if t == "str":
        return dec_str(r["s"])
    if t == "arr":
        return [dec(i) for i in r["e"]]
    if t == "obj":
        return {dec_str(k): dec(v) for k, v in zip(r["k"], r["v"])}
    raise ValueError("bad tag %r" % t)


def enc_path(path):
    out = []
    for el in path:
        if isinstance(el, bool):
            raise Unencodable("bool path element")
        if isinstance(el, int):
            out.append({"i": el})
        elif isinstance(el, str):
            out.append({"s": enc_str(el)})
        else:
            raise Unencodable("path element %r" % (el,))
    return out


def dec_path(p):
    return [el["i"] if "i" in el else dec_str(el["s"]) for el in p]


def msg_hash(s):
    """31-bit stable hash of a message (messages are only compared between runs of the code)."""
    h = 0
    for ch in s:
        h = (h * 131 + ord(ch)) % 2147483629
    return h


def canon(x):
    """Canonical hashable form of a real JSON value (for distinct counting); bool != int, 1 == 1.0."""
    if x is None or isinstance(x, (bool, str)):
        return (type(x).__name__, x)
    if isinstance(x, (int, float)):
        if isinstance(x, float) and (math.isinf(x) or math.isnan(x)):
            return ("num", repr(x))
        return ("num", int(x) if x == int(x) else x)
    if isinstance(x, (list, tuple)):
        return ("arr", tuple(canon(i) for i in x))
    if isinstance(x, dict):
        return ("obj", tuple(sorted((k, canon(v)) for k, v in x.items())))
    return ("other", repr(x))
