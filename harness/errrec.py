"""Observation of error collections of the real code, and records for Trace_Errors (C05, C06, C10)."""
import sys

from harness import regex
from harness.encode import enc, enc_str, enc_path, msg_hash

KEYWORDS = {}


def keywords(d):
    if d not in KEYWORDS:
        k = {"$ref", "type", "enum", "minimum", "maximum", "minLength", "maxLength", "pattern", "minItems", "maxItems",
             "uniqueItems", "items", "additionalItems", "properties", "patternProperties", "additionalProperties",
             "dependencies", "format"}
        if d == 3:
            k |= {"disallow", "extends", "divisibleBy"}
        if d >= 4:
            k |= {"multipleOf", "minProperties", "maxProperties", "required", "allOf", "anyOf", "oneOf", "not"}
        if d >= 6:
            k |= {"const", "contains", "propertyNames", "exclusiveMinimum", "exclusiveMaximum"}
        if d == 7:
            k |= {"if"}
        KEYWORDS[d] = k
    return KEYWORDS[d]


def consults(d, k):
    """mirror of Semantics!Consults (TLC re-derives every restriction and rejects the record if they differ)"""
    if k == "additionalProperties":
        return {"properties", "patternProperties"}
    if k == "additionalItems":
        return {"items"}
    if k == "if" and d == 7:
        return {"then", "else"}
    if k == "minimum" and d <= 4:
        return {"exclusiveMinimum"}
    if k == "maximum" and d <= 4:
        return {"exclusiveMaximum"}
    return set()


def restrict(d, S, k):
    keep = {k} | consults(d, k)
    return {kk: v for kk, v in S.items() if kk in keep}


def obs_err(e, loc=False):
    kw = e.validator
    o = {"none": not isinstance(kw, str), "kw": enc_str(kw) if isinstance(kw, str) else [],
         "ip": enc_path(e.relative_path), "sp": enc_path(e.relative_schema_path),
         "msg": msg_hash(e.message), "ctx": [obs_err(c, loc) for c in e.context]}
    if loc:
        if len(e.message) % 2 == 0:
            # every other error is looked at through the copy that `create_from` makes of it (what callers do to re-raise
            # or collect errors): the copy is an error of the same place and locates itself like the original
            e = type(e).create_from(e)
        o["aip"] = enc_path(e.absolute_path)
        o["asp"] = enc_path(e.absolute_schema_path)
        o["inst"] = enc(e.instance)
        o["kwval"] = enc(e.validator_value)
        o["sch"] = enc(e.schema)
        o["jp"] = enc_str(e.json_path)
    return o


def plain_err(e):
    """human-readable projection of a real error (for replay files / samples)"""
    return {"keyword": e.validator, "message": e.message, "path": list(e.relative_path),
            "schema_path": list(e.relative_schema_path), "context": [plain_err(c) for c in e.context]}


def canon_obs(o):
    return (tuple(o["kw"]) if not o["none"] else (), _p(o["ip"]), _p(o["sp"]), tuple(sorted(canon_obs(c) for c in o["ctx"])))


def canon_spec(e):
    return (tuple(e["kw"]), _p(e["ip"]), _p(e["sp"]), tuple(sorted(canon_spec(c) for c in e["ctx"])))


def _p(path):
    return tuple(("i", el["i"]) if "i" in el else ("s", tuple(el["s"])) for el in path)


def make_record(i, d, cls, S, I, base="", loc=False, with_restr=False, alt=None, uselib=False, resolver_for=None, hold=False):
    """run the real validator; returns (record, real_errors_plain).  Exceptions propagate to the caller.
    hold: while the judged report is gathered, the caller still holds a partially consumed report of the same instance from
    the same validator object (reference-free schemas only: no resolver state is involved)"""
    hold = hold and "$ref" not in repr(S)

    def run(schema):
        v = cls(schema, resolver=resolver_for(schema)) if resolver_for else cls(schema)
        if hold:
            held = v.iter_errors(I)
            next(held, None)
            try:
                return list(v.iter_errors(I))
            finally:
                held.close()
        return list(v.iter_errors(I))
    errs = run(S)
    rec = {"id": i, "d": d, "S": enc(S), "I": enc(I), "base": enc_str(base), "uselib": uselib, "more": [], "raised": "none",
           "hasinl": False, "inl": {"S": {"t": "null"}, "errs": []},
           "pats": regex.pats_table([S] + ([alt] if alt is not None else [])),
           "errs": [obs_err(e, loc) for e in errs], "loc": loc, "hasrestr": False, "restr": [], "hasalt": False,
           "alt": {"S": {"t": "null"}, "errs": []}, "bm": []}
    if loc and errs:
        # the error a caller of jsonschema.validate() gets: best_match over the LAZY error iterator (nothing else keeps
        # the enclosing errors alive); it must locate itself like the same error found by walking the full list
        js = sys.modules["jsonschema"]
        v = cls(S, resolver=resolver_for(S)) if resolver_for else cls(S)
        b = js.exceptions.best_match(v.iter_errors(I))
        rec["bm"] = [obs_err(b, True)]
    if with_restr and isinstance(S, dict) and S.get("$ref") is None:
        rec["hasrestr"] = True
        for k in S:
            if k in keywords(d):
                rs = restrict(d, S, k)
                rec["restr"].append({"k": enc_str(k), "rs": enc(rs), "errs": [obs_err(e, False) for e in run(rs)]})
    if alt is not None:
        rec["hasalt"] = True
        rec["alt"] = {"S": enc(alt), "errs": [obs_err(e, False) for e in run(alt)]}
    return rec, [plain_err(e) for e in errs]
