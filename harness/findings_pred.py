"""Predicates identifying recorded findings over a failing case (see known_findings.json)."""


def c03_illfounded_recursion(what, case):
    """F4: a reference cycle that consumes no part of the instance (the specification's well-foundedness fuel runs
    out: Semantics!E marks the case "loop"), and the only crash is RecursionError"""
    return (what == "outcome:illfounded_reference_cycle"
            and all(c.endswith("crash:RecursionError") for c in case.get("crashes", [])))


def c03_target_not_schema(what, case):
    """F11: a $ref whose target is neither an object nor a boolean (Semantics!E marks the case "notschema"); the
    crash is the attribute/type error of treating the value as a schema"""
    return (what == "outcome:reference_target_not_a_schema"
            and all(c.rsplit(":", 1)[1] in ("AttributeError", "TypeError") for c in case.get("crashes", [])))


def c02_nonhierarchical_base(what, case):
    """F10: the base URI in effect has a scheme urljoin does not treat as hierarchical (urn:, tag:): a same-document
    reference "#/..." is returned unresolved and retrieval of '' fails with RefResolutionError"""
    sch = case.get("schema_with_references") or {}
    base = sch.get("$id", sch.get("id", "")) if isinstance(sch, dict) else ""
    return (what == "unresolved" and isinstance(base, str) and base.split(":", 1)[0] in ("urn", "tag")
            and str(case.get("observed", "")).startswith("RefResolutionError"))


def c17_property_name_instance(what, case):
    """F12: a propertyNames error (whose recorded instance is a property NAME) is the LAST error filed at an object's
    node, the node then takes that string for the instance, and indexing an error-free member of the object raises
    TypeError (property_name_error_paths = the paths whose last-arrived error is a property-name error)"""
    return (what == "index_error_free_element" and case.get("has_property_name_error") is True
            and all(p.get("out") == "TypeError" and p.get("p") in case.get("property_name_error_paths", [])
                    for p in case.get("index_probes", [])))


def c09_int_str_limit(what, case):
    """F15: an operand is an integer with more digits than the interpreter's int->str conversion limit, every exception
    seen is that limit's ValueError, and in the keyword form reported every draft raised (no draft gave a verdict that
    could be wrong)"""
    forms = case.get("forms") or ["minimum", "exclusiveMinimum", "maximum", "exclusiveMaximum", "multipleOf",
                                  "maximum+exclusiveMaximum", "minimum+exclusiveMinimum", "nested exclusiveMinimum",
                                  "nested exclusiveMaximum"]
    alias = {"multipleOf_raises": "multipleOf", "maximum_with_exclusiveMaximum": "maximum+exclusiveMaximum",
             "minimum_with_exclusiveMinimum": "minimum+exclusiveMinimum",
             "nested_exclusiveMinimum": "nested exclusiveMinimum", "nested_exclusiveMaximum": "nested exclusiveMaximum"}
    form = alias.get(what, what)
    if form not in forms or not case.get("beyond_int_str_limit"):
        return False
    exc = case.get("exceptions") or []
    if not exc or not all(e.startswith("ValueError: Exceeds the limit") for e in exc):
        return False
    col = case.get("observed_per_draft") or []
    if col and isinstance(col[0], list):          # trace records carry the whole table: take this form's column
        j = list(forms).index(form)
        col = [row[j] for row in col]
    return bool(col) and all(c in ("raise", "n/a") for c in col)


def c03_id_not_a_uri(what, case):
    """F18: the schema's own root id (the keyword this draft reads) is a string urlsplit rejects, and the only crash is
    that ValueError"""
    from urllib.parse import urlsplit
    S, d = case.get("schema"), case.get("draft")
    idv = S.get("id" if d in (3, 4) else "$id") if isinstance(S, dict) else None
    if not isinstance(idv, str):
        return False
    try:
        urlsplit(idv)
        return False
    except ValueError:
        pass
    return what == "outcome" and bool(case.get("crashes")) and all(c.endswith("crash:ValueError") for c in case["crashes"])
