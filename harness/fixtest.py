"""Development tool: a fixed defect must be reported again if it ever returns.
For every `fixed` entry of known_findings.json: scratch worktree of /repo HEAD with that one fix: commit reverted,
run the check(s) of the entry's properties against it, expect exit 1; worktree removed afterwards."""
import json
import os
import shutil
import subprocess
import sys
import tempfile

VERIF = os.path.dirname(os.path.dirname(os.path.abspath(__file__)))
CHECK_FOR = {"F1": ["C03"], "F2": ["C03"], "F3": ["C09", "C03"], "F5": ["C01"], "F6": ["C08"], "F7a": ["C13"], "F7b": ["C13"],
             "F8": ["C14"], "F9": ["C17"], "F13": ["C13"], "F14": ["C13"], "F16": ["C02", "C14"], "F17": ["C03"]}


def sh(cmd, cwd=None, env=None):
    p = subprocess.run(cmd, cwd=cwd, env=env, stdout=subprocess.PIPE, stderr=subprocess.STDOUT, universal_newlines=True)
    return p.returncode, p.stdout


def main():
    k = json.load(open(os.path.join(VERIF, "known_findings.json")))
    wt = tempfile.mkdtemp(prefix="fixwt-")
    os.rmdir(wt)
    rc, out = sh(["git", "-C", "/repo", "worktree", "add", "--detach", wt, "HEAD"])
    results = {}
    try:
        for f in k["findings"]:
            if f["status"] != "fixed":
                continue
            if len(sys.argv) > 1 and f["id"] not in sys.argv[1:]:
                continue
            sh(["git", "reset", "--hard", "-q"], cwd=wt)
            if f["id"] in ("F7a", "F13"):      # later fixes touched the same lines: take them out first (newest first)
                sh(["git", "revert", "--no-commit", "29b7a25"], cwd=wt)
            if f["id"] == "F8":
                sh(["git", "revert", "--no-commit", "46d2521"], cwd=wt)
            if f["id"] == "F7a":
                sh(["git", "revert", "--no-commit", "5ab3100"], cwd=wt)
            rc, out = sh(["git", "revert", "--no-commit", f["commit"]], cwd=wt)
            if rc != 0:
                results[f["id"]] = "revert failed: " + out[-200:]
                sh(["git", "revert", "--abort"], cwd=wt)
                continue
            for c in CHECK_FOR[f["id"]]:
                scratch = tempfile.mkdtemp(prefix="fixout-")
                env = dict(os.environ, VERIF_REPO=wt, VERIF_OUT=scratch)
                rc, out = sh([os.path.join(VERIF, "check"), c, "--tier", "quick"], cwd=VERIF, env=env)
                lines = [l for l in out.splitlines() if l.startswith("VIOLATION")]
                results["%s/%s" % (f["id"], c)] = {"exit": rc, "first": lines[0].split("#")[-1].strip() if lines else ""}
                shutil.rmtree(scratch, ignore_errors=True)
            sh(["git", "reset", "--hard", "-q"], cwd=wt)
    finally:
        sh(["git", "-C", "/repo", "worktree", "remove", "--force", wt])
    print(json.dumps(results, indent=1))


if __name__ == "__main__":
    main()
