"""Seeded random generator of deep schemas (as programs of the JSON Schema language) and of instances derived
from them so that both sides of each assertion are hit.  It only *proposes* cases: whether a schema is accepted
is decided by the code (check_schema) and by the specification (Meta / Accepts), what a validation must yield is
decided by TLC."""

KEYS = ["a", "b", "ab", "ba", "c", "", "a/b", "é", "~1", "x y", "%s", "{0}", "100%"]
PATTERNS = ["a", "^a", "a$", "^a+$", "b|c", "^.$", "[0-9]", "", "^(ab)*$", "a{2,3}", "[^a]", "\\.", "x?y",
            "(?:a|b)c", "^[a-c]+$", "a.b"]
STRINGS = ["", "a", "b", "ab", "ba", "aa", "abab", "c", "bc", "a.b", "\U0001F600", "é", "0", "9a", "x y", "aaa"]
NUMS = [0, 1, -1, 2, 3, 4, 1.5, 0.5, 1.0, 2.0, -0.0, 2 ** 53 + 1, 10 ** 30, 2.5, 7, 10, 1e300]
TYPES = ["null", "boolean", "integer", "number", "string", "array", "object"]


def kwlist(d):
    k = ["type", "enum", "minimum", "maximum", "minLength", "maxLength", "pattern", "minItems", "maxItems",
         "uniqueItems", "items", "additionalItems", "properties", "patternProperties", "additionalProperties",
         "dependencies"]
    if d == 3:
        k += ["disallow", "extends", "divisibleBy", "exclusiveMinimum", "exclusiveMaximum"]
    if d >= 4:
        k += ["multipleOf", "minProperties", "maxProperties", "required", "allOf", "anyOf", "oneOf", "not"]
    if d == 4:
        k += ["exclusiveMinimum", "exclusiveMaximum"]
    if d >= 6:
        k += ["const", "contains", "propertyNames", "exclusiveMinimum", "exclusiveMaximum"]
    if d == 7:
        k += ["if", "then", "else"]
    return k


class Gen(object):
    def __init__(self, rng, d, maxdepth=4, maxkw=6, refs=False):
        self.rng, self.d, self.maxdepth, self.maxkw = rng, d, maxdepth, maxkw

    # ---- values ----------------------------------------------------------------------------------------
    def json_value(self, depth=2):
        r = self.rng
        x = r.random()
        if depth <= 0 or x < 0.45:
            return r.choice([None, True, False] + NUMS[:12] + STRINGS[:8])
        if x < 0.75:
            return [self.json_value(depth - 1) for _ in range(r.randrange(0, 4))]
        return {k: self.json_value(depth - 1) for k in r.sample(KEYS[:6], r.randrange(0, 4))}

    def sub(self, depth):
        return self.schema(depth - 1)

    def subs(self, depth, lo=1, hi=3):
        return [self.sub(depth) for _ in range(self.rng.randrange(lo, hi + 1))]

    def nonneg(self):
        r = self.rng
        v = r.choice([0, 1, 1, 2, 2, 3])
        if self.d >= 6 and r.random() < 0.1:
            return float(v)
        return v

    def posnum(self):
        return self.rng.choice([1, 2, 3, 0.5, 0.25, 2.0, 1.5, 4])

    def typeval(self):
        r, d = self.rng, self.d
        names = TYPES + (["any"] if d == 3 else [])
        if r.random() < 0.6:
            return r.choice(names)
        ent = r.sample(names, r.randrange(1, 4))
        if d == 3 and r.random() < 0.5:
            ent.insert(r.randrange(len(ent) + 1), self.schema(1))
        return ent

    def value(self, k, depth):
        r, d = self.rng, self.d
        if k == "type":
            return self.typeval()
        if k == "disallow":
            return self.typeval()
        if k == "extends":
            return self.sub(depth) if r.random() < 0.4 else self.subs(depth, 0, 3)
        if k == "enum":
            vals = [self.json_value(2) for _ in range(r.randrange(1, 4))]
            out = []
            for v in vals:          # metaschema: uniqueItems (drafts 3/4 strictly) -- keep elements JSON-distinct
                if not any(_jeq(v, w) for w in out):
                    out.append(v)
            return out
        if k == "const":
            return self.json_value(2)
        if k in ("minimum", "maximum"):
            return r.choice(NUMS)
        if k in ("exclusiveMinimum", "exclusiveMaximum"):
            return r.choice([True, False]) if d <= 4 else r.choice(NUMS)
        if k in ("multipleOf", "divisibleBy"):
            return self.posnum()
        if k in ("minLength", "maxLength", "minItems", "maxItems", "minProperties", "maxProperties"):
            return self.nonneg()
        if k == "pattern":
            return r.choice(PATTERNS)
        if k == "uniqueItems":
            return r.choice([True, True, False])
        if k == "items":
            x = r.random()
            if x < 0.5:
                return self.sub(depth) if (d >= 6 or True) else self.sub(depth)
            return self.subs(depth, 0, 3)
        if k == "additionalItems":
            return r.choice([False, False, True, self.sub(depth)])
        if k == "contains":
            return self.sub(depth)
        if k == "required":
            lo = 0 if d >= 6 else 1
            return r.sample(KEYS[:7], r.randrange(lo, 4))
        if k == "properties":
            out = {kk: self.sub(depth) for kk in r.sample(KEYS, r.randrange(0, 4))}
            if d == 3:
                for kk in out:
                    if isinstance(out[kk], dict) and r.random() < 0.4:
                        out[kk]["required"] = r.choice([True, True, False])
            return out
        if k == "patternProperties":
            return {p: self.sub(depth) for p in r.sample(PATTERNS, r.randrange(0, 3))}
        if k == "additionalProperties":
            return r.choice([False, False, True, self.sub(depth)])
        if k == "propertyNames":
            return r.choice([{"maxLength": r.choice([1, 2])}, {"pattern": r.choice(PATTERNS)}, self.sub(depth),
                             {"enum": r.sample(KEYS, 3)}])
        if k == "dependencies":
            out = {}
            for kk in r.sample(KEYS[:6], r.randrange(0, 3)):
                x = r.random()
                if x < 0.45:
                    lo = 0 if d >= 6 else 1
                    out[kk] = r.sample(KEYS[:6], r.randrange(lo, 3))
                elif x < 0.6 and d == 3:
                    out[kk] = r.choice(KEYS[:6])
                else:
                    out[kk] = self.sub(depth)
                    if d <= 4 and not isinstance(out[kk], dict):
                        out[kk] = {}
            return out
        if k in ("allOf", "anyOf", "oneOf"):
            return self.subs(depth, 1, 3)
        if k in ("not", "if", "then", "else"):
            return self.sub(depth)
        raise KeyError(k)

    def schema(self, depth=None):
        r, d = self.rng, self.d
        if depth is None:
            depth = self.maxdepth
        if d >= 6 and r.random() < 0.07:
            return r.choice([True, False])
        leafkw = ["type", "enum", "minimum", "maximum", "minLength", "maxLength", "pattern", "minItems", "maxItems",
                  "uniqueItems", "required" if d >= 4 else "type", "const" if d >= 6 else "enum",
                  "multipleOf" if d >= 4 else "divisibleBy", "minProperties" if d >= 4 else "minItems"]
        if depth <= 0:
            pool = leafkw
            n = r.choice([0, 1, 1, 2])
        else:
            pool = kwlist(d)
            n = r.choice([1, 1, 2, 2, 3, 3, 4, self.maxkw])
        n = min(n, len(set(pool)))
        ks = r.sample(sorted(set(pool)), n)
        s = {}
        for k in ks:
            s[k] = self.value(k, depth)
        # draft 3/4: exclusive* boolean requires its partner
        if d <= 4:
            if "exclusiveMinimum" in s and "minimum" not in s:
                s["minimum"] = r.choice(NUMS)
            if "exclusiveMaximum" in s and "maximum" not in s:
                s["maximum"] = r.choice(NUMS)
        if d == 7 and ("then" in s or "else" in s) and "if" not in s and r.random() < 0.8:
            s["if"] = self.sub(depth)
        if r.random() < 0.3:     # shuffle member order: keyword order must not matter
            items = list(s.items())
            r.shuffle(items)
            s = dict(items)
        return s

    # ---- instances -------------------------------------------------------------------------------------
    def instance(self, s, depth=4):
        """an instance guided by schema s (or random)"""
        r = self.rng
        if depth <= 0 or not isinstance(s, dict) or r.random() < 0.25:
            return self.json_value(2)
        cands = []
        if "enum" in s and isinstance(s["enum"], list) and s["enum"]:
            cands.append(lambda: _perturb(r, r.choice(s["enum"])))
        if "const" in s:
            cands.append(lambda: _perturb(r, s["const"]))
        t = s.get("type")
        tn = t if isinstance(t, str) else (r.choice([x for x in t if isinstance(x, str)] or ["object"]) if isinstance(t, list) and t else None)
        objish = any(k in s for k in ("properties", "patternProperties", "additionalProperties", "required",
                                     "dependencies", "minProperties", "maxProperties", "propertyNames"))
        arrish = any(k in s for k in ("items", "additionalItems", "contains", "minItems", "maxItems", "uniqueItems"))
        strish = any(k in s for k in ("minLength", "maxLength", "pattern"))
        numish = any(k in s for k in ("minimum", "maximum", "multipleOf", "divisibleBy", "exclusiveMinimum", "exclusiveMaximum"))
        if objish or tn == "object":
            cands.append(lambda: self.obj_for(s, depth))
            cands.append(lambda: self.obj_for(s, depth))
        if arrish or tn == "array":
            cands.append(lambda: self.arr_for(s, depth))
            cands.append(lambda: self.arr_for(s, depth))
        if strish or tn == "string":
            cands.append(lambda: r.choice(STRINGS))
        if numish or tn in ("integer", "number"):
            cands.append(lambda: self.num_for(s))
        for k in ("allOf", "anyOf", "oneOf", "extends"):
            if isinstance(s.get(k), list) and s[k]:
                cands.append(lambda k=k: self.instance(r.choice(s[k]), depth - 1))
        for k in ("not", "if", "then", "else", "extends"):
            if isinstance(s.get(k), dict):
                cands.append(lambda k=k: self.instance(s[k], depth - 1))
        if not cands:
            return self.json_value(2)
        return r.choice(cands)()

    def num_for(self, s):
        r = self.rng
        base = [v for k, v in s.items() if k in ("minimum", "maximum", "exclusiveMinimum", "exclusiveMaximum")
                and isinstance(v, (int, float)) and not isinstance(v, bool)]
        m = s.get("multipleOf", s.get("divisibleBy"))
        c = list(NUMS[:10])
        for b in base:
            if abs(b) < 2 ** 60:
                c += [b, b + 1, b - 1, float(b)]
            else:
                c += [b, b + 1, b - 1]
        if isinstance(m, (int, float)) and not isinstance(m, bool):
            kq = r.randrange(0, 6)
            c += [m * kq, m * kq, m * kq + (m / 2 if isinstance(m, float) else 1)]
        return r.choice(c)

    def obj_for(self, s, depth):
        r = self.rng
        props = s.get("properties") if isinstance(s.get("properties"), dict) else {}
        keys = set()
        for k in props:
            if r.random() < 0.6:
                keys.add(k)
        req = s.get("required") if isinstance(s.get("required"), list) else []
        for k in req:
            if isinstance(k, str) and r.random() < 0.7:
                keys.add(k)
        deps = s.get("dependencies") if isinstance(s.get("dependencies"), dict) else {}
        for k, dep in deps.items():
            if r.random() < 0.6:
                keys.add(k)
                if isinstance(dep, list) and r.random() < 0.5:
                    keys.update(x for x in dep if isinstance(x, str))
                if isinstance(dep, str) and r.random() < 0.5:
                    keys.add(dep)
        for _ in range(r.randrange(0, 3)):
            keys.add(r.choice(STRINGS + KEYS))
        keys = list(keys)
        r.shuffle(keys)
        out = {}
        pp = s.get("patternProperties") if isinstance(s.get("patternProperties"), dict) else {}
        ap = s.get("additionalProperties")
        for k in keys[:5]:
            if k in props:
                out[k] = self.instance(props[k], depth - 1)
            elif pp and r.random() < 0.5:
                out[k] = self.instance(r.choice(list(pp.values())), depth - 1)
            elif isinstance(ap, dict):
                out[k] = self.instance(ap, depth - 1)
            else:
                out[k] = self.json_value(1)
        return out

    def arr_for(self, s, depth):
        r = self.rng
        it = s.get("items")
        n = r.randrange(0, 5)
        out = []
        for i in range(n):
            if isinstance(it, list):
                sub = it[i] if i < len(it) else s.get("additionalItems")
            else:
                sub = it
            if isinstance(s.get("contains"), (dict, bool)) and r.random() < 0.3:
                sub = s["contains"]
            out.append(self.instance(sub, depth - 1) if isinstance(sub, dict) else self.json_value(1))
        if out and r.random() < 0.25:
            out.append(_perturb(r, r.choice(out)))
        return out


def _jeq(a, b):
    """JSON equality (only used to keep generated enum lists duplicate-free; never as an oracle)"""
    if isinstance(a, bool) or isinstance(b, bool):
        return isinstance(a, bool) and isinstance(b, bool) and a == b
    if isinstance(a, (int, float)) and isinstance(b, (int, float)):
        return a == b
    if type(a) != type(b):
        return False
    if isinstance(a, list):
        return len(a) == len(b) and all(_jeq(x, y) for x, y in zip(a, b))
    if isinstance(a, dict):
        return a.keys() == b.keys() and all(_jeq(a[k], b[k]) for k in a)
    return a == b


def _perturb(r, v):
    x = r.random()
    if x < 0.5:
        return v
    if isinstance(v, bool):
        return int(v)
    if isinstance(v, int):
        return r.choice([float(v) if abs(v) < 2 ** 53 else v + 1, v + 1, bool(v) if v in (0, 1) else v])
    if isinstance(v, float):
        return int(v) if v == int(v) and abs(v) < 1e15 else v + 0.5
    if isinstance(v, str):
        return v + "a"
    if isinstance(v, list):
        return v + [1] if x < 0.75 or not v else v[:-1]
    if isinstance(v, dict):
        w = dict(v)
        w["zz"] = 1
        return w
    return v


def has_no686(v):
    return True
