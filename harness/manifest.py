"""Regenerate MANIFEST.json from the table below (python -m harness.manifest).  Keeps the manifest valid."""
import json
import os

VERIF = os.path.dirname(os.path.dirname(os.path.abspath(__file__)))

CLAIMED = {
    "C01": dict(
        technique="TLA+ semantics of drafts 3/4/6/7 (Semantics.tla) calibrated on the official suite; TLC enumerates the "
                  "SchemaBuilder universe (MC_Schema) and exports verdict vectors replayed into the validator classes; "
                  "random deep schemas trace-validated by TLC (Trace_Verdict)",
        text="An explicit TLA+ semantics of the four drafts, written from the drafts and first required to reproduce all "
             "expected verdicts of the bundled official test suite, is evaluated by TLC over every reachable state of a "
             "schema-builder machine (every pool value of every keyword, all pairs/orders inside interacting families, "
             "every single wrapped under every applicator; thorough: family triples and all keyword pairs) against a "
             "fixed list of 38 instances; each (schema, instance) verdict is replayed into the real class. In the other "
             "direction, verdicts the real classes give on seeded random deep schemas are validated record by record by "
             "TLC. Regexes outside the modelled subset and inexact float multipleOf are predicates of the spec and are "
             "skipped, counted in the evidence.",
        note="Trusted: TLC, the encoder, the regex-subset parser only insofar as TLC re-renders each AST to the pattern "
             "text. The quantifier is the property's: schemas check_schema accepts (acceptance itself is C11); crashes are "
             "C03's. Exhaustive within the universe bounds, sampled beyond.",
        design="5 C01"),
    "C02": dict(
        technique="TLA+ Uri (RFC 3986), Pointer (RFC 6901), reference semantics and Inline in RefTransparency; TLC Extract machine "
                  "MC_Ref with invariants Transparent / SameAsOriginal and exported scenarios replayed on real validators with "
                  "stores and a tracing resolver; random extractions trace-validated (Trace_Errors C02 clauses, Trace_Uri)",
        text="The specification defines the designated schema (RFC 3986 resolution against the base in effect, then the JSON "
             "Pointer fragment) and Inline, the schema with every reference written out. TLC checks on every final state of "
             "the Extract machine (every subschema position x hostile definition names x 20 base-URI/store arrangements "
             "incl. nested ids, chains, array elements, store documents, a cross-document reference evaluated before a "
             "local one) that the located errors of the schema with references equal those of its inlining and of the "
             "original, and exports them; each scenario is replayed on a real validator (own store, one validator for all "
             "instances) and compared with the specification and with the real errors of the inlined schema. Random deep "
             "schemas get a reference at a random position/name/arrangement; TLC re-derives the inlining and judges. "
             "Every resolve(scope, ref) -> url event seen by a tracing RefResolver subclass is checked against the RFC 3986 "
             "algorithm wherever the RFC defines it.",
        note="Targets identified only by an embedded id are outside the claim (property text). Known finding F10 "
             "(non-hierarchical base). Recursive references are covered by the official-suite calibration and C03/C07 "
             "scenarios rather than by the Extract machine (no finite inlining).",
        design="5 C02"),
    "C03": dict(
        technique="TLA+ Semantics outcome classes + Meta!Accepts; TLC enumerates the shape universe (MC_Shape) incl. reference "
                  "cases and exports the allowed outcome classes per (schema, instance); replayed through 4 entry points x 3 "
                  "checker configurations with validators reused across instances; random mutated schemas trace-validated "
                  "(Trace_Outcome)",
        text="The specification is total on accepted, well-founded schemas and says which outcome classes a validation may "
             "have: valid/invalid, RefResolutionError where a reference may fail to resolve, UnknownType where a Draft 3 "
             "type name is unknown. TLC enumerates the universe of everything-the-metaschema-might-let-through (keyword x "
             "JSON shape, one level down, reference cases) and exports the allowed classes; every schema the real "
             "check_schema accepts is run through is_valid, iter_errors, validate and jsonschema.validate, with no checker, "
             "FormatChecker() and the draft checker, on 22 instances including numbers no float can hold, each batch under "
             "an alarm; any other escaping exception or a timeout is a violation. Two classes of genuine defects are "
             "recorded as known findings (ill-founded reference cycles, reference targets that are not schemas), "
             "identified by predicates of the specification.",
        note="Network primitives are replaced by stubs that raise. Verdict exactness is C01's claim; here only the class. "
             "Quick: singles over a 16-shape pool + downs; thorough: pairs inside families over the 33-shape pool.",
        design="5 C03"),
    "C04": dict(
        technique="TLA+ EntryPoints spec (BestCandidates, error identity); TLC model of the entry-point protocol over all short "
                  "error sequences (MC_C04); recorded is_valid / iter_errors / validate / jsonschema.validate / best_match / "
                  "check_schema observations judged relation by relation by TLC (Trace_C04)",
        text="The relations between the entry points are predicates of the specification (emptiness equivalences, validate "
             "raises the first yielded error, module validate raises a best candidate equal to the library's own "
             "best_match, SchemaError carries the first metaschema error and precedes any look at the instance, repeated "
             "calls are identical). TLC model-checks the protocol over all error sequences with context trees (including "
             "that the documented best_match algorithm always lands in the candidate set), and evaluates every relation "
             "on records taken from the real entry points for random valid and invalid schemas, explicit and "
             "$schema-selected classes, with and without a format checker; invalid-schema records pass a spying instance.",
        note="best_match's choice among candidates is a documented heuristic and is never predicted. Error identity = "
             "(keyword, message hash, path, schema path, context recursively). History effects across instances are C07's.",
        design="5 C04"),
    "C05": dict(
        technique="TLA+ error model of Semantics.tla; TLC checks the union law (invariant) and the incremental law (action "
                  "property) on every SchemaBuilder state and exports expected error bags replayed into iter_errors; "
                  "recorded whole-schema and per-keyword-restriction error collections trace-validated by TLC (Trace_Errors)",
        text="The specification states what an error is and TLC proves, on every reachable state of the schema-builder "
             "machine, that the specification's own errors obey the property (static union law; thorough tier also the "
             "incremental action property: adding a keyword nobody consults adds exactly its errors). The expected bag "
             "of located errors (keyword, path, schema path, context) of every (schema, instance) of the universe is "
             "replayed against the real iter_errors. For random deep schemas the real errors of the whole schema and of "
             "every restriction {keyword + consulted siblings} are recorded; TLC re-derives each restriction, and checks "
             "the union relation on the recorded errors including message hashes and contexts, and equality with the "
             "specification's bag.",
        note="Errors are compared as bags: order carries no documented meaning. Messages are compared only between runs of "
             "the code. Reference-bearing schemas are exercised by C02/C07. Bounds as in C01 (quick: singles and family "
             "pairs; thorough adds wrappers and the action properties).",
        design="5 C05"),
    "C06": dict(
        technique="TLA+ Locate module (path navigation through reference hops, json_path rendering); TLC invariant C06Spec on "
                  "the SchemaBuilder universe; every real error with its context closure recorded and judged clause by "
                  "clause by TLC (Trace_Errors)",
        text="Located-ness is a predicate of the specification (instance path reaches the recorded instance; keyword is the "
             "last schema-path element; recorded subschema holds keyword and value; absolute schema path walked from the "
             "root, hopping exactly at reference objects, reaches the value; absolute = parent absolute + relative; "
             "json_path renders the absolute path). TLC checks it on the specification's own errors in every universe "
             "state and then evaluates it on every error, top-level and in contexts, that the real code produced for "
             "universe pairs and for random deep schemas. The documented exceptions (Draft 3 required, errors under "
             "propertyNames, false-schema errors) are predicates of the spec.",
        note="Trusted: TLC, encoder. Recorded fields come from the public attributes of ValidationError. Quick: up to 2 "
             "invalid instances per universe schema + 1500 random schemas; thorough: 4 + 40000.",
        design="5 C06"),
    "C07": dict(
        technique="TLA+ Iterators module (generators with pending finally blocks over scripts of resolver events, scopes computed "
                  "with the RFC 3986 Uri module); TLC model MC_Iter over all well-nested scripts x operation histories with "
                  "negative controls; MC_IterScen executes measured scripts of concrete scenarios over every operation "
                  "history and its behaviours are replayed on one real validator object",
        text="Design level: TLC checks, for every well-nested script of resolver events and every history of start / advance / "
             "close operations on iterators of one validator, that the scope stack is restored whenever no iterator is "
             "suspended and that what an iterator produces is a prefix of its solo run; removing the finally blocks or "
             "allowing re-entry makes TLC produce counterexamples (the invariants are not vacuous). Binding: the event "
             "script of every (scenario, instance) is measured on a fresh validator through a tracing RefResolver "
             "subclass and TLC first checks that the model's scope computation reproduces every reported scope and URL; "
             "TLC then enumerates all histories of exhaust / is_valid / validate / take-2-then-close / take-2-then-drop / "
             "direct resolve / handler toggle (fail -> ok), executes the model and exports the expected outputs; every "
             "history is replayed on ONE real validator, comparing yielded errors, resolved URLs, the resolution scope "
             "stack, and deep snapshots of instance, schema and store documents after every step.",
        note="Re-entering a validator while one of its iterators is suspended is the documented hazard and is not claimed (the "
             "replay never does it). URLs are compared modulo a bare trailing '#'.",
        design="5 C07"),
    "C08": dict(
        technique="TLA+ JsonEq spec; TLC enumerates pair/array universes (MC_C08, MC_C08U) with equivalence/congruence laws, "
                  "exports replayed into enum/const/uniqueItems; random deep pairs trace-validated by TLC (Trace_C08)",
        text="TLC model-checks the JSON-equality specification (equivalence, congruence, agreement of the three keywords) on "
             "every reachable state of the value-pair and array builder machines and exports the expected relation for "
             "each state; every exported state is replayed into the real enum, const and uniqueItems of all four drafts, "
             "and seeded random deep values with bool/0/1/1.0/key-order mutations are recorded from the code and "
             "validated by TLC. Exhaustive within the stated bounds, sampled beyond.",
        note="Trusted: TLC, the encoder harness/encode.py (round-trips checked), CPython. Bounds: depth <= 1 (quick) / 2 "
             "(thorough) for pairs, arrays of length <= 3 / 4 over 15 elements; random values to depth 4.",
        design="5 C08"),
    "C09": dict(
        technique="TLA+ exact dyadic-rational arithmetic (Num/Numeric); TLC enumerates number-pair universe (MC_C09) with "
                  "arithmetic laws, exports replayed into min/max/exclusive*/multipleOf of 4 drafts; random huge/dense/"
                  "subnormal pairs trace-validated by TLC (Trace_C09) incl. witnessed big-integer division",
        text="Numbers are exact sums of powers of two in the specification, so TLC decides comparisons and divisibility "
             "at any magnitude with small integers. TLC model-checks the arithmetic laws (antisymmetry, subtraction/"
             "addition, agreement of two division algorithms, duality of the bounds) on every reachable (instance, bound) "
             "pair, exports the expected outcome of each keyword form, and each pair is replayed into the real keywords "
             "of four drafts; random pairs from ten families are recorded from the code and validated by TLC. multipleOf "
             "verdicts are compared only on the exact sub-domain that the property delimits (a spec predicate); "
             "everywhere else only exception-freedom is required.",
        note="Trusted: TLC, harness/encode.py exact conversions (int.bit_length / float.as_integer_ratio), CPython. Bounds: "
             "<= 2 set bits per number over 10 (quick) / 16 (thorough) exponents exhaustively; random numbers up to 5000 "
             "bits; pairs whose divisibility the spec cannot decide (long division > 160 steps, no witness) are skipped "
             "and counted.",
        design="5 C09"),
    "C10": dict(
        technique="TLC action properties C10Step / RefSiblingStep on the SchemaBuilder machine (foreign names, foreign keyword "
                  "groups, keywords next to $ref) with exported error bags replayed into iter_errors; random foreign "
                  "insertions at any subschema position trace-validated by TLC (Trace_Errors!Inserted)",
        text="The specification's vocabulary tables say which names each draft defines and which sibling names its keywords "
             "consult; everything else is foreign. TLC checks as action properties of the schema-builder machine that "
             "adding a foreign keyword (annotation, other-draft, later-spec or arbitrary name, alone or together with the "
             "siblings it would consult if honoured, with several value shapes) leaves the error bag of every instance "
             "unchanged, and that keywords written next to a $ref (including \"$ref\": \"\" and \"#\") are ignored; the "
             "expected bags of the extended schemas are replayed into the real classes. Random deep schemas get 1-3 foreign "
             "keywords at random subschema positions; TLC verifies that the second schema is an insertion of inert members "
             "at schema positions and that the recorded bags are equal.",
        note="id/$id base-URI behaviour per draft is exercised by the reference scenarios of C02. Messages are not compared "
             "(they may quote the schema).",
        design="5 C10"),
    "C11": dict(
        technique="Meta!Accepts = the TLA+ semantics applied to the bundled metaschema (read from the working tree); TLC "
                  "enumerates the shape universe (MC_Shape) and exports acceptance bits replayed into check_schema; random "
                  "mutated deep candidates trace-validated (Trace_Outcome)",
        text="Acceptance is defined in the specification as: the draft's own semantics, applied to the metaschema bundled in "
             "the working tree (with $ref \"#\", definitions, dependencies, type unions, Draft 3 extends), yields no "
             "error. TLC evaluates it on every candidate of the shape universe (malformed values at the root and one "
             "level down, non-object candidates) and on random deep schemas with shape mutations at random depths; "
             "check_schema must return normally exactly on the accepted ones and raise SchemaError and nothing else on "
             "the others; each metaschema must accept itself (TLC invariant and real call).",
        note="The metaschemas are regenerated from /repo/jsonschema/schemas on every run, so a change to a bundled metaschema "
             "changes both sides consistently; the calibration against the official suite in setup guards the semantics.",
        design="5 C11"),
    "C12": dict(
        technique="TLA+ FormatProto (checker = name -> behaviour; outcome of the format keyword) with the registration action "
                  "checks(); TLC enumerates checker configurations x probes (MC_C12: OffWithoutChecker, UnknownPasses) and exports "
                  "expected outcomes replayed through validation in 4 drafts and conforms()",
        text="The protocol between the format keyword and a checker is specified: no checker -> no effect; unknown name -> pass; "
             "truthy -> pass; falsy -> error without cause; an exception listed in raises -> error whose cause IS that "
             "exception object; any other exception reaches the caller unchanged; built-ins pass every non-string. TLC "
             "enumerates the configurations reachable by registrations on fresh checkers (new names, the empty name, "
             "overriding a built-in) and the shared draft checker objects, with probes of every JSON type, and exports the "
             "expected outcome; the replay builds the real checker from the model's description (functions that return or "
             "raise as told, unlisted exceptions of several plausible classes), validates in four drafts, compares outcome, "
             "cause identity and escaping-exception identity, and requires conforms() to agree with validation.",
        note="String instances of built-in formats use the FormatGrammar recognisers (C13) for email / ipv4 / ipv6 / date; other "
             "built-ins are probed with non-strings only.",
        design="5 C12"),
    "C13": dict(
        technique="TLA+ FormatGrammar recognisers (ipv4, ipv6 per RFC 4291, RFC 3339 full-date, email); TLC mutation machine MC_C13 "
                  "(insert / delete / substitute from seeds) exporting verdicts replayed on conforms() / check(); "
                  "never-raises records for every registered name trace-validated (Trace_C13)",
        text="The grammars are recognisers over code points in the specification, independent of ipaddress / datetime / re. TLC "
             "explores every single (thorough: double) edit of valid and invalid seeds over the grammar's characters and "
             "intruders, and the recogniser's verdict for each string is replayed on FormatChecker() and on every draft "
             "checker object registering the name. For the never-raises half, near-miss, random-Unicode and pathological "
             "strings (absurd repetition counts, deep nesting, lone surrogates, thousands of digits) are run through every "
             "name registered in this installation and TLC requires a boolean from conforms(), nothing but FormatError "
             "from check(), agreement of the two, and the recogniser's verdict where a grammar exists; regex is compared "
             "with the engine itself.",
        note="idn-hostname, Draft 3 time and regex have no independent grammar here (never-raises half only). Year 0000 is left "
             "unclaimed. Two defects were repaired (fix: commits): ISO 8601 alternatives accepted as date; OverflowError and "
             "RecursionError escaping from regex.",
        design="5 C13"),
    "C14": dict(
        technique="TLA+ Pointer module (RFC 6901 + RFC 3986 fragment encoding); TLC pointer-walk machine MC_C14 over hostile "
                  "documents (round-trip and clean-failure invariants), exports replayed into resolve_fragment and $ref "
                  "validation; random documents/fragments and edit-then-resolve histories trace-validated (Trace_C14)",
        text="Escaping, percent-encoding, token splitting, index syntax and evaluation are specified in TLA+; TLC checks on "
             "every location of the hostile documents that FragmentOf and ResolveFragment are inverse and that every "
             "failing token fails, and exports (fragment, expected value | failure) for every location and every failing "
             "step; each is replayed through RefResolver.resolve_fragment (one resolver object reused for the whole run) "
             "and, for leaf schemas, through validation of a $ref in four drafts. Random documents and fragments "
             "(including mis-escaped ones, which TLC classifies) and documents edited in place between two resolutions "
             "are judged record by record.",
        note="Fragments that are not well-formed percent-encoded JSON Pointers are outside RFC 6901 and are skipped (counted).",
        design="5 C14"),
    "C15": dict(
        technique="TLA+ Resolver state machine (store, URL cache kinds, handler log, handler faults) model-checked by TLC with "
                  "invariants FetchOnce / StoreStable / LocalNeverFetched / StoreSound and action property AnswersTransparent; "
                  "every bounded history exported and replayed on real RefResolver objects; random long histories "
                  "trace-validated against the same transition function (Trace_C15)",
        text="The resolver's retrieval and caching behaviour is an explicit state machine; TLC explores every history of "
             "resolutions over remote, store and metaschema documents and every URL spelling for 18 configurations "
             "(cache_remote x cache function kind x handler fault modes), checks the property's clauses as invariants, and "
             "exports each history with the answer, handler-call count and store contents expected after every step. The "
             "replay drives a real RefResolver built with the same configuration (counting handlers that fail on demand, "
             "pass-through or evicting cache functions, urlopen stubbed, requests absent) through resolve() and through "
             "$ref validation and compares after every step. Random histories of up to 12 steps are recorded and TLC "
             "searches for a model behaviour explaining each; the property's clauses are also evaluated on the observed "
             "handler log and store.",
        note="With caching off the property claims nothing about fetch counts; the model leaves open whether two spellings of "
             "one URL share a cache entry, and the replay accepts any behaviour the model allows.",
        design="5 C15"),
    "C16": dict(
        technique="TLA+ Registry state machine (type checkers, classes, validator objects, format checkers and registries as values; "
                  "derivation operations as actions) model-checked by TLC (MC_C16: action property Undisturbed, invariant "
                  "ExtendIdentity); every operation history exported and replayed on real objects with all live objects "
                  "probed after every step",
        text="Objects are values in the specification, so aliasing cannot exist there; TLC enumerates every sequence of "
             "derivation operations whose operands range over all objects created so far, checks that no operation changes "
             "the behaviour table of an existing object (except the one format checker an in-place registration names, and "
             "the class-wide registry for cls_checks, which affects only checkers created afterwards), and exports the "
             "histories with the behaviour tables. The replay performs each history on real TypeChecker / validator class / "
             "validator / FormatChecker objects and after EVERY step probes EVERY live object: is_type tables incl. an "
             "undefined name, verdicts through the type keyword, overridden and added keywords, which of id / $id "
             "establishes the base URI, format functions by name -- an earlier object disturbed by a later operation is "
             "exactly what the comparison with the model exposes.",
        note="Predicate, keyword and format functions are generated from the model's ids. Global registries are snapshotted "
             "and restored around every history.",
        design="5 C16"),
    "C17": dict(
        technique="TLA+ ErrorTree module (incremental AddTo vs declarative KwsAt / ChildKeys / Total); TLC refinement check over all "
                  "arrival sequences (MC_C17: Refines, Findable, OrderFree); synthetic replays and real error collections "
                  "in all permutations judged by TLC (Trace_C17)",
        text="The specification gives the tree a declarative meaning over the set of added errors and an incremental "
             "construction that never consults an instance; TLC checks after every AddError, for all sequences of errors "
             "over paths through keys and indices with repeated (path, keyword) pairs, that the construction refines the "
             "meaning and does not depend on arrival order. Every final sequence is replayed with synthetic "
             "ValidationErrors, and the real errors of random validations (with the Draft 3 required and propertyNames "
             "shapes) are fed to ErrorTree in every permutation; the observed tree (errors per node, children via "
             "iteration and membership, total_errors, len, each error reached by indexing along its path) is judged by "
             "TLC, and indexing of existing error-free elements is probed on fresh trees.",
        note="Membership/iteration are claimed for freshly built trees only (a lookup inserts an empty child: documented "
             "quirk). Known finding F12 (node instance taken from a propertyNames error).",
        design="5 C17"),
    "C18": dict(
        technique="TLA+ Iterators module with one scope stack per validator; TLC enumerates all next()-level interleavings of "
                  "2-3 iterators over measured scripts (MC_Interleave, invariant Independent, negative control SharedStack); "
                  "every schedule replayed on real iterators; event-level bounded-preemption schedules (MC_Sched) replayed on real threads gated at resolver events; unscheduled thread stress",
        text="Each validator owns a resolver and therefore a scope stack; the model advances iterators of different "
             "validators in every order and TLC checks that what each produces is a prefix of its solo run and that all "
             "stacks are restored, while the negative control (one stack shared behind their backs) is violated. The "
             "scripts are measured from the real code for groups of validators chosen to collide on every key a shared "
             "cache could use (same base URI, same reference strings with different meanings, same nested ids and "
             "relative references, same remote URL in different stores, same pattern, same format name with different "
             "functions on default-constructed FormatCheckers, the very same schema object given to two default-"
             "constructed validators, recursive schemas). Every TLC schedule (quick: all schedules of the small groups, "
             "a seeded sample of 400 for the large ones) is replayed on real generator objects and compared with the solo "
             "error sequences. At thread level TLC enumerates the schedules of resolver events of two concurrent validations "
             "with a bounded number of preemptions; each is replayed on real threads whose resolvers block before every "
             "event until a turn-passing scheduler grants the slot; the same members also run unscheduled with a "
             "1-microsecond switch interval.",
        note="Thread preemption is enumerated at resolver-event granularity with <= 1 (quick) / 2 (thorough) preemptions; "
             "byte-code-level preemption is only exercised by the stress runs.",
        design="5 C18"),
    "C19": dict(
        technique="TLA+ Cli run-loop machine (LoadSchema / CheckSchema / Instance(k) / Return) model-checked by TLC (MC_C19: "
                  "ExitZeroIff, EveryInstanceProcessed, PlainStdoutEmpty, CodeMonotone); every run exported and executed with "
                  "real files through cli.run and python -m jsonschema; random longer lists trace-validated (Trace_C19)",
        text="The CLI is specified as a state machine over abstract inputs (state of the schema file, kinds of the listed "
             "instances, output mode) producing an exit code and sequences of stderr/stdout records. TLC explores every run "
             "with up to 2 (quick) / 3 (thorough) instances, checks the property's clauses on every final state and exports "
             "the expected outputs. The replay materialises files, runs the real CLI in six option variants (default and "
             "custom --error-format, explicit --validator, class from $schema, explicit validator against a schema "
             "declaring another draft, --base-uri with a relative file reference, instance on stdin), parses stdout/stderr "
             "back into records and attributes each validation error by comparison with the library's own iter_errors on "
             "the same instance.",
        note="Pretty-mode bodies are matched by the library's message text; traceback text of parse errors is not compared.",
        design="5 C19"),
    "C20": dict(
        technique="TLA+ Registry!ValidatorFor with registration actions; TLC enumerates registration sequences x $schema spellings "
                  "x defaults (MC_C20: ExistingKept, LaterSelectable) and exports the selected class; replayed with real "
                  "registrations, validator_for, jsonschema.validate and the CLI on draft-discriminating pairs",
        text="Selection is a function of the registry state in the specification; TLC explores every sequence of later "
             "registrations under fresh ids and every spelling of $schema (registered ids with and without a trailing '#', "
             "with a non-empty fragment, unknown and non-URI strings, absent, boolean schemas) with both defaults, checks "
             "that existing registrations are never disturbed and later classes become selectable, and exports the selected "
             "class and whether a DeprecationWarning is due. The replay performs the registrations on the real global "
             "registries (restored afterwards), calls validator_for with warnings captured, and requires "
             "jsonschema.validate -- and the CLI for a sample -- to behave exactly as the selected class on eleven (schema, "
             "instance) pairs on which the drafts disagree, and an explicitly given class to win.",
        note="Re-registering an already registered id replaces the entry (by design of the library); the property speaks of "
             "fresh ids only and the model registers fresh ids only.",
        design="5 C20"),
}

PENDING_REASON = "not claimed"


def main():
    props = [json.loads(l) for l in open(os.path.join(VERIF, "properties.jsonl"))]
    checks, na = [], []
    for p in props:
        pid = p["id"]
        c = CLAIMED.get(pid)
        if c is None:
            na.append({"property_id": pid, "reason": PENDING_REASON})
            continue
        checks.append({
            "property_id": pid,
            "quick_cmd": "./check %s --tier quick" % pid,
            "thorough_cmd": "./check %s --tier thorough" % pid,
            "evidence_file": "/verif/evidence/%s.json" % pid,
            "replay_cmd_template": "./check %s --replay {path}" % pid,
            "engine": "tlc",
            "level_claimed": {"category": "model_checking", "text": c["text"], "design_ref": c["design"]},
            "level_note": c["note"],
            "technique": c["technique"],
        })
    m = {
        "version": 1,
        "setup_cmd": "./setup.sh",
        "hooks": {
            "guard": "JSONSCHEMA_VERIF",
            "enable": "no in-tree hooks: every observation uses public extension points (RefResolver subclass, "
                      "handlers=, format checkers, public API); the guard name JSONSCHEMA_VERIF is reserved and unused",
            "baseline_off_cmd": "cd /repo && /venv/bin/python -m pytest -ra -q -p no:cacheprovider --timeout=900 "
                                "--continue-on-collection-errors",
            "source_commits": [],
            "add_only": True,
        },
        "engines": [{"name": "tlc", "path": "/opt/veriftools/tla/tla2tools.jar",
                     "serves_properties": sorted(CLAIMED),
                     "kind_free_text": "TLC 1.8 model checker evaluating the TLA+ specification in spec/ (model checking of "
                                       "builder/state machines, export of expected observations, trace validation)"}],
        "checks": checks,
        "notes": "Model-based verification with an explicit TLA+ specification (spec/); TLC is the only oracle "
                 "evaluator; Python harness encodes, drives the real code and compares. See DESIGN.md.",
        "not_applicable": na,
    }
    with open(os.path.join(VERIF, "MANIFEST.json"), "w") as f:
        json.dump(m, f, indent=1)
    return m


if __name__ == "__main__":
    m = main()
    print("claimed:", [c["property_id"] for c in m["checks"]])
