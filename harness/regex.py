"""Parser for the regular-expression subset of spec/Regex.tla (text -> AST as JSON).

Only canonical text is accepted (what Regex!Render produces); anything else returns None and the case is
out of the oracle's domain.  TLC re-renders every AST and rejects the pair if it does not give back the text,
so this parser is not trusted.
"""
SPECIAL = set("\\^$.|?*+()[]{}")
CLASS_SPECIAL = set("\\]^-")


class _P(object):
    def __init__(self, s):
        self.s, self.i = s, 0

    def peek(self):
        return self.s[self.i] if self.i < len(self.s) else None

    def alt(self):
        parts = [self.cat()]
        while self.peek() == "|":
            self.i += 1
            parts.append(self.cat())
        if len(parts) == 1:
            return parts[0]
        return {"r": "alt", "a": parts}

    def cat(self):
        parts = []
        while self.peek() is not None and self.peek() not in "|)":
            parts.append(self.quant())
        if len(parts) == 1:
            return parts[0]
        return {"r": "cat", "a": parts}

    def quant(self):
        a = self.atom()
        c = self.peek()
        if c in ("*", "+", "?"):
            if a["r"] not in ("lit", "any", "cls", "grp"):
                raise ValueError("quantified non-atom")
            self.i += 1
            if self.peek() in ("?", "+", "*", "{"):
                raise ValueError("lazy/possessive/stacked quantifier")
            return {"r": {"*": "star", "+": "plus", "?": "opt"}[c], "x": a}
        if c == "{":
            j = self.s.find("}", self.i)
            if j < 0:
                raise ValueError("unterminated {")
            body = self.s[self.i + 1:j]
            if a["r"] not in ("lit", "any", "cls", "grp"):
                raise ValueError("quantified non-atom")
            if "," in body:
                lo, hi = body.split(",", 1)
            else:
                lo, hi = body, body
            if not lo.isdigit() or not lo.isascii() or (lo != "0" and lo.startswith("0")):
                raise ValueError("bad bound")
            m = int(lo)
            if hi == "" and "," in body:
                n = -1
            else:
                if not hi.isdigit() or not hi.isascii() or (hi != "0" and hi.startswith("0")):
                    raise ValueError("bad bound")
                n = int(hi)
                if n < m or ("," in body and n == m):
                    raise ValueError("non canonical bound")
            if m > 50 or n > 50:
                raise ValueError("bound too large for the model")
            self.i = j + 1
            if self.peek() in ("?", "+", "*", "{"):
                raise ValueError("stacked quantifier")
            return {"r": "rep", "x": a, "m": m, "n": n}
        return a

    def atom(self):
        c = self.peek()
        if c == "(":
            self.i += 1
            cap = True
            if self.s.startswith("?:", self.i):
                cap = False
                self.i += 2
            elif self.peek() == "?":
                raise ValueError("group extension")
            x = self.alt()
            if self.peek() != ")":
                raise ValueError("unbalanced")
            self.i += 1
            return {"r": "grp", "x": x, "cap": cap}
        if c == "[":
            self.i += 1
            neg = False
            if self.peek() == "^":
                neg = True
                self.i += 1
            rs = []
            while self.peek() != "]":
                lo = self.clschar()
                hi = lo
                if self.peek() == "-":
                    self.i += 1
                    hi = self.clschar()
                if hi < lo:
                    raise ValueError("bad range")
                rs.append([lo, hi])
            self.i += 1
            if not rs:
                raise ValueError("empty class")
            return {"r": "cls", "neg": neg, "rs": rs}
        self.i += 1
        if c == ".":
            return {"r": "any"}
        if c == "^":
            return {"r": "bol"}
        if c == "$":
            return {"r": "eol"}
        if c == "\\":
            e = self.peek()
            if e is None or e not in SPECIAL:
                raise ValueError("escape outside the subset")
            self.i += 1
            return {"r": "lit", "c": ord(e)}
        if c in SPECIAL:
            raise ValueError("unescaped special %r" % c)
        return {"r": "lit", "c": ord(c)}

    def clschar(self):
        c = self.peek()
        if c is None:
            raise ValueError("unterminated class")
        self.i += 1
        if c == "\\":
            e = self.peek()
            if e is None or e not in CLASS_SPECIAL:
                raise ValueError("class escape outside the subset")
            self.i += 1
            return ord(e)
        if c in CLASS_SPECIAL:
            raise ValueError("unescaped %r in class" % c)
        return ord(c)


def parse(text):
    """AST (JSON-able) or None when the text is outside the canonical subset."""
    try:
        p = _P(text)
        ast = p.alt()
        if p.i != len(text):
            return None
        return ast
    except (ValueError, RecursionError):
        return None


def collect_patterns(schema, out=None, depth=0):
    """every string that might be used as a pattern by `schema` (over-approximation: any "pattern" string value
    and any key of an object under "patternProperties", at any depth)"""
    if out is None:
        out = {}
    if depth > 60:
        return out
    if isinstance(schema, dict):
        for k, v in schema.items():
            if k == "pattern" and isinstance(v, str):
                out.setdefault(v, None)
            if k == "patternProperties" and isinstance(v, dict):
                for p in v:
                    out.setdefault(p, None)
            collect_patterns(v, out, depth + 1)
    elif isinstance(schema, list):
        for v in schema:
            collect_patterns(v, out, depth + 1)
    return out


def pats_table(schemas):
    """[{text, ast}] for all parseable patterns of the given schemas"""
    found = {}
    for s in schemas:
        collect_patterns(s, found)
    table = []
    for text in found:
        ast = parse(text)
        if ast is not None:
            table.append({"text": [ord(c) for c in text], "ast": ast})
    return table
