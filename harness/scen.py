"""Concrete reference scenarios shared by C07 and C18: schemas with local, remote, relative, recursive and
unresolvable references and nested id/$id, per draft; script measurement with the tracing resolver."""
import copy

from harness import errrec, tracing
from harness.common import import_lib, draft_classes
from harness.encode import enc_str

ROOT = "http://x.invalid/root.json"
NESTED = "http://x.invalid/nested/"
REMOTE = "http://x.invalid/remote.json"
OTHER = "http://x.invalid/other.json"


def scenarios(d):
    """list of dicts: name, schema, store (always available), remote (only through the handler), instances, refs"""
    idk = "id" if d <= 4 else "$id"
    neg = (lambda s: {"disallow": [s]}) if d == 3 else (lambda s: {"not": s})
    allof = "extends" if d == 3 else "allOf"
    out = []
    out.append(dict(
        name="nested-id-relative-ref",
        schema={idk: ROOT,
                "properties": {"a": {"$ref": "#/definitions/int"},
                               "b": {idk: NESTED, "properties": {"c": {"$ref": "item.json"}, "e": {"$ref": "item.json#/definitions/pos"}}},
                               "d": {"$ref": "#/definitions/int"}},
                "definitions": {"int": {"type": "integer"}}},
        store={NESTED + "item.json": {"type": "string", "definitions": {"pos": {"minimum": 0}}}}, remote={},
        instances=[{"a": "x", "b": {"c": 1, "e": -1}, "d": "y"}, {"a": 1, "b": {"c": "s"}, "d": 2}, {"b": {"c": 2}, "d": None}],
        refs=["#/definitions/int", "nested/item.json", "#/nope"]))
    out.append(dict(
        name="recursive",
        schema={"properties": {"next": {"$ref": "#"}, "v": {"type": "integer"}}, "additionalProperties": False},
        store={}, remote={},
        instances=[{"v": 1, "next": {"v": "x", "next": {"v": None, "zz": 1}}}, {"v": 1}, {"next": {"next": {"next": {"v": "deep"}}}, "v": "a"}],
        refs=["#", "#/properties/v"]))
    out.append(dict(
        name="remote-through-handler",
        schema={idk: ROOT, "items": {"$ref": REMOTE + "#/definitions/pos"}, "minItems": 1,
                "properties": {"q": {"$ref": "#/definitions/local"}}, "definitions": {"local": {"type": "null"}}},
        store={}, remote={REMOTE: {"definitions": {"pos": {"type": "integer", "minimum": 1}}}},
        instances=[[0, "x", 3], [], [5]],
        refs=[REMOTE + "#/definitions/pos", "#/definitions/local"]))
    out.append(dict(
        name="dangling",
        schema={"properties": {"a": {"type": "string"}, "b": {"$ref": "#/nope"}, "c": {"type": "integer"}}},
        store={}, remote={},
        instances=[{"a": 1, "c": "x"}, {"a": 1, "b": 2, "c": "x"}, {"c": 1}],
        refs=["#/properties/a", "#/nope"]))
    guard = neg({"$ref": OTHER + "#/definitions/tt"})
    s5 = dict(guard)
    s5.update({"properties": {"x": {"$ref": "#/definitions/thing"}}, "definitions": {"thing": {"type": "string"}}})
    out.append(dict(
        name="verdict-only-crossdoc-then-local",
        schema=s5, store={OTHER: {"definitions": {"tt": {"type": "null"}, "thing": {}}}}, remote={},
        instances=[{"x": 5}, None, {"x": "s"}],
        refs=["#/definitions/thing"]))
    out.append(dict(
        name="same-pointer-two-documents",
        schema={idk: ROOT, "properties": {"x": {"$ref": "#/definitions/item"}, "y": {"$ref": OTHER + "#/definitions/wrap"},
                                          "z": {"$ref": "#/definitions/item"}},
                "definitions": {"item": {"type": "integer"}}},
        store={OTHER: {"definitions": {"wrap": {"$ref": "#/definitions/item"}, "item": {"type": "string"}}}}, remote={},
        instances=[{"x": "s"}, {"y": 5}, {"y": "s", "z": 1}, {"x": 1, "y": 1, "z": "q"}],
        refs=["#/definitions/item", OTHER + "#/definitions/item"]))
    out.append(dict(
        name="embedded-id-and-remote-same-url",
        schema={"properties": {"first": {idk: REMOTE, "type": "integer"}, "second": {"$ref": REMOTE}, "third": {"$ref": REMOTE}}},
        store={}, remote={REMOTE: {"type": "string"}},
        instances=[{"first": 1}, {"second": "some text"}, {"first": "x", "third": 5}],
        refs=[REMOTE]))
    # the same definition reached twice for the same instance: first by a keyword that only asks for a verdict (and
    # abandons the error iterator at the first error), then by one that reports every error
    big = {"minimum": 10, ("divisibleBy" if d == 3 else "multipleOf"): 4}
    s_twice = dict(neg({"$ref": "#/definitions/big"}))
    s_twice[allof] = [{"$ref": "#/definitions/big"}]
    s_twice["definitions"] = {"big": big}
    if d >= 6:
        s_twice = dict([("contains", {"$ref": "#/definitions/big"})] + list(s_twice.items()))
    out.append(dict(name="same-ref-verdict-then-report", schema=s_twice, store={}, remote={},
                    instances=[15, 3, 12, [15, 3], [12]], refs=["#/definitions/big"]))
    # ONE Python dict {"$ref": "item.json"} embedded at two places whose base URIs differ (schemas built in code share
    # sub-objects freely): what it designates is decided by where it stands, every time
    shared_ref = {"$ref": "item.json"}
    out.append(dict(
        name="one-ref-object-under-two-bases",
        schema={idk: ROOT, "properties": {"a": {idk: "http://x.invalid/one/", "items": shared_ref},
                                          "b": {idk: "http://x.invalid/two/", "items": shared_ref}}},
        store={"http://x.invalid/one/item.json": {"type": "integer"}, "http://x.invalid/two/item.json": {"type": "string"}}, remote={},
        instances=[{"a": [1]}, {"b": ["x"]}, {"a": ["x"], "b": [1]}],
        refs=["one/item.json"]))
    # a root document without an id, other documents stored under RELATIVE URIs with a directory, a relative reference
    # from one of them to its neighbour, and references into the root itself before and after
    out.append(dict(
        name="relative-store-uris-with-directory",
        schema={"properties": {"o": {"$ref": "schemas/order.json"}, "z": {"$ref": "#/definitions/int"}, "zz": {"$ref": "#/definitions/int"}},
                "definitions": {"int": {"type": "integer"}}},
        store={"schemas/order.json": {"properties": {"i": {"$ref": "item.json"}, "n": {"type": "integer"}}},
               "schemas/item.json": {"type": "string"}}, remote={},
        instances=[{"o": {"i": 5, "n": "x"}, "z": "s"}, {"o": {"i": "ok"}, "zz": 1}, {"z": 1, "zz": "t"}],
        refs=["#/definitions/int", "schemas/item.json"]))
    # a root document WITHOUT an id (nothing re-establishes the base at the start of a call), a subschema that carries an
    # id, and same-document references elsewhere: whatever was going on below the id when an earlier call stopped at its
    # first error, the base of the next call is the root's again
    out.append(dict(
        name="nested-id-under-idless-root",
        schema={"properties": {"b": {idk: NESTED, "properties": {"c": {"type": "integer"}, "e": {"$ref": "item.json"}}},
                               "d": {"$ref": "#/definitions/int"}},
                "definitions": {"int": {"type": "integer"}}},
        store={NESTED + "item.json": {"type": "string"}}, remote={},
        instances=[{"b": {"c": "x"}, "d": "y"}, {"b": {"c": 1, "e": 5}, "d": 2}, {"d": None}, {"b": {"c": None, "e": 1}}],
        refs=["#/definitions/int"]))
    if d >= 4:
        inner = {"anyOf": [{"$ref": OTHER + "#/definitions/str"}, {"$ref": "#/definitions/int"}],
                 "oneOf": [{"$ref": "#/definitions/int"}, {"$ref": OTHER + "#/definitions/num"}]}
        sch = {idk: ROOT, allof: [inner], "definitions": {"int": {"type": "integer"}}}
        if d >= 6:
            sch["contains"] = {"$ref": OTHER + "#/definitions/str"}
        if d == 7:
            sch["if"] = {"$ref": OTHER + "#/definitions/num"}
            sch["then"] = {"$ref": "#/definitions/int"}
            sch["else"] = {"$ref": "#/definitions/int"}
        out.append(dict(
            name="short-circuit-applicators",
            schema=sch, store={OTHER: {"definitions": {"str": {"type": "string"}, "num": {"type": "number"}}}}, remote={},
            instances=[1.5, [1, 2], 3, "s"],
            refs=["#/definitions/int", OTHER + "#/definitions/num"]))
    return out


def build(d, sc, handler_fail=False, resolver_cls=None, cache_remote=True):
    """(validator, resolver, handler) for a scenario"""
    cls = draft_classes()[d]
    R = resolver_cls or tracing.make_tracing_resolver_class()
    h = tracing.CountingHandler(sc["remote"])
    if handler_fail:
        h.failing.update(sc["remote"])
    schema = copy.deepcopy(sc["schema"])
    res = R.from_schema(schema, id_of=cls.ID_OF, store=copy.deepcopy(sc["store"]), handlers={"http": h}, cache_remote=cache_remote)
    return cls(schema, resolver=res), res, h


def canon(e):
    return repr(errrec.canon_obs(errrec.obs_err(e))) + "|" + e.message


def convert(events):
    out = []
    for ev in events:
        if ev["ev"] == "push":
            out.append({"e": "push", "a": enc_str(ev["arg"]), "top": enc_str(ev["top"])})
        elif ev["ev"] == "pop":
            out.append({"e": "pop", "top": enc_str(ev["top"]) if ev["top"] is not None else []})
        elif ev["ev"] == "resolve":
            out.append({"e": "res", "a": enc_str(ev["ref"]), "ok": bool(ev["ok"]), "url": enc_str(ev["url"]) if ev["ok"] else []})
    return out


def measure(d, sc, I, handler_fail, table):
    """the script of a complete iteration on a FRESH validator; errors are numbered through `table`"""
    js = import_lib()
    v, res, h = build(d, sc, handler_fail)
    script = []
    gen = v.iter_errors(copy.deepcopy(I))
    while True:
        n0 = len(res.events)
        try:
            e = next(gen)
        except StopIteration:
            script += convert(res.events[n0:])
            break
        except js.exceptions.RefResolutionError:
            evs = convert(res.events[n0:])
            # the script ends at the failing resolution; the pops that follow are the finally blocks unwinding
            cut = next((k for k, x in enumerate(evs) if x["e"] == "res" and not x["ok"]), None)
            script += evs[:cut + 1] if cut is not None else evs
            break
        script += convert(res.events[n0:])
        key = canon(e)
        if key not in table:
            table[key] = len(table) + 1
        script.append({"e": "yield", "a": table[key]})
    return script


def suite_scenarios(d):
    """the reference-bearing cases of the bundled official suite (ref.json, refRemote.json, definitions.json) as scenarios:
    the executions the repository's own tests perform, here on ONE reused validator and under the model's eyes"""
    import json
    import os
    from harness import calibrate
    from harness.common import REPO
    store = dict(calibrate.suite_remotes())
    out = []
    base = os.path.join(REPO, "json", "tests", "draft%d" % d)
    for fn in ("ref.json", "refRemote.json", "definitions.json"):
        p = os.path.join(base, fn)
        if not os.path.exists(p):
            continue
        for case in json.load(open(p)):
            if not isinstance(case["schema"], dict):
                continue
            insts = [t["data"] for t in case["tests"]][:4]
            out.append(dict(name="suite:%s:%s" % (fn, case["description"]), schema=case["schema"], store=store, remote={},
                            instances=insts, refs=["#"]))
    return out
