"""Development tool: confirm a seeded change and run checks against it.

  python -m harness.seedtest <worktree> <seed dir> <check id> [<check id> ...] [--tier quick]

1. clean worktree: demo exits 0;  2. apply patch: full pytest passes, demo exits 1;
3. run ./check <id> with VERIF_REPO=<worktree>, evidence/replays redirected to a scratch dir; report exit codes;
4. restore the worktree.
"""
import json
import os
import shutil
import subprocess
import sys
import tempfile

VERIF = os.path.dirname(os.path.dirname(os.path.abspath(__file__)))


def sh(cmd, cwd=None, env=None, timeout=3600):
    p = subprocess.run(cmd, cwd=cwd, env=env, stdout=subprocess.PIPE, stderr=subprocess.STDOUT,
                       universal_newlines=True, timeout=timeout)
    return p.returncode, p.stdout


def main(argv):
    tier = "quick"
    if "--tier" in argv:
        i = argv.index("--tier")
        tier = argv[i + 1]
        del argv[i:i + 2]
    skip_suite = "--skip-suite" in argv
    if skip_suite:
        argv.remove("--skip-suite")
    keep = None
    if "--keep" in argv:
        i = argv.index("--keep")
        keep = argv[i + 1]
        del argv[i:i + 2]
    wt, seed = argv[0], argv[1]
    checks = argv[2:]
    patch = os.path.join(seed, "patch.diff")
    demo = os.path.join(seed, "demo.py")
    res = {"worktree": wt, "seed": seed}
    sh(["git", "checkout", "--", "."], cwd=wt)
    rc, out = sh(["/venv/bin/python", demo, wt], cwd=wt)
    res["demo_clean"] = rc
    rc, out = sh(["git", "apply", patch], cwd=wt)
    if rc != 0:
        print("patch does not apply:", out)
        return 2
    try:
        rc, out = sh(["/venv/bin/python", demo, wt], cwd=wt)
        res["demo_patched"] = rc
        if not skip_suite:
            rc, out = sh(["/venv/bin/python", "-m", "pytest", "-q", "-p", "no:cacheprovider", "-x"], cwd=wt)
            res["suite"] = out.strip().splitlines()[-1] if out.strip() else ""
            res["suite_rc"] = rc
        for c in checks:
            scratch = tempfile.mkdtemp(prefix="seedout-")
            env = dict(os.environ, VERIF_REPO=wt, VERIF_OUT=scratch)
            rc, out = sh([os.path.join(VERIF, "check"), c, "--tier", tier], cwd=VERIF, env=env)
            lines = [l for l in out.splitlines() if l.startswith(("VIOLATION", "KNOWN", "MACHINERY", c))]
            res["check_" + c] = {"exit": rc, "lines": lines[:6]}
            shutil.rmtree(scratch, ignore_errors=True)
    finally:
        sh(["git", "checkout", "--", "."], cwd=wt)
    print(json.dumps(res, indent=1))
    if keep:
        confirmed = res.get("demo_clean") == 0 and res.get("demo_patched") == 1 and (skip_suite or res.get("suite_rc") == 0)
        if not confirmed:
            print("NOT CONFIRMED - not kept")
            return 1
        d = os.path.join(VERIF, "seeded", keep)
        os.makedirs(d, exist_ok=True)
        if os.path.abspath(seed) != os.path.abspath(d):
            shutil.copy(patch, os.path.join(d, "patch.diff"))
            shutil.copy(demo, os.path.join(d, "demo.py"))
        meta = {}
        try:
            meta = json.load(open(os.path.join(seed, "meta.json")))
        except Exception:
            pass
        old = {}
        if os.path.exists(os.path.join(d, "meta.json")):
            old = json.load(open(os.path.join(d, "meta.json")))
        meta["confirmed_by_me"] = {"demo_exit_clean_tree": res["demo_clean"], "demo_exit_with_change": res["demo_patched"],
                                   "suite_with_change": res.get("suite", old.get("confirmed_by_me", {}).get("suite_with_change", "")),
                                   "how": "python -m harness.seedtest <scratch worktree> <seed dir> <checks>: clean demo, git apply, "
                                          "demo, full pytest, ./check with VERIF_REPO=<worktree>, git checkout -- ."}
        det = old.get("checks_run", {})
        for c in checks:
            det[c + ":" + tier] = {"exit": res["check_" + c]["exit"], "first_lines": [l.split("/replays/")[-1] for l in res["check_" + c]["lines"][:3]]}
        meta["checks_run"] = det
        meta["detected"] = any(v["exit"] == 1 for v in det.values())
        json.dump(meta, open(os.path.join(d, "meta.json"), "w"), indent=1)
    return 0


if __name__ == "__main__":
    sys.exit(main(sys.argv[1:]))
