"""Development tool: confirm a seeded change and run checks against it.

  python -m harness.seedtest <worktree> <seed dir> <check id> [<check id> ...] [--tier quick]

1. clean worktree: demo exits 0;  2. apply patch: full pytest passes, demo exits 1;
3. run ./check <id> with VERIF_REPO=<worktree>, evidence/replays redirected to a scratch dir; report exit codes;
4. restore the worktree.
"""
import json
import os
import shutil
import subprocess
import sys
import tempfile

VERIF = os.path.dirname(os.path.dirname(os.path.abspath(__file__)))


def sh(cmd, cwd=None, env=None, timeout=3600):
    p = subprocess.run(cmd, cwd=cwd, env=env, stdout=subprocess.PIPE, stderr=subprocess.STDOUT,
                       universal_newlines=True, timeout=timeout)
    return p.returncode, p.stdout


def main(argv):
    tier = "quick"
    if "--tier" in argv:
        i = argv.index("--tier")
        tier = argv[i + 1]
        del argv[i:i + 2]
    skip_suite = "--skip-suite" in argv
    if skip_suite:
        argv.remove("--skip-suite")
    wt, seed = argv[0], argv[1]
    checks = argv[2:]
    patch = os.path.join(seed, "patch.diff")
    demo = os.path.join(seed, "demo.py")
    res = {"worktree": wt, "seed": seed}
    sh(["git", "checkout", "--", "."], cwd=wt)
    rc, out = sh(["/venv/bin/python", demo, wt], cwd=wt)
    res["demo_clean"] = rc
    rc, out = sh(["git", "apply", patch], cwd=wt)
    if rc != 0:
        print("patch does not apply:", out)
        return 2
    try:
        rc, out = sh(["/venv/bin/python", demo, wt], cwd=wt)
        res["demo_patched"] = rc
        if not skip_suite:
            rc, out = sh(["/venv/bin/python", "-m", "pytest", "-q", "-p", "no:cacheprovider", "-x"], cwd=wt)
            res["suite"] = out.strip().splitlines()[-1] if out.strip() else ""
            res["suite_rc"] = rc
        for c in checks:
            scratch = tempfile.mkdtemp(prefix="seedout-")
            env = dict(os.environ, VERIF_REPO=wt, VERIF_OUT=scratch)
            rc, out = sh([os.path.join(VERIF, "check"), c, "--tier", tier], cwd=VERIF, env=env)
            lines = [l for l in out.splitlines() if l.startswith(("VIOLATION", "KNOWN", "MACHINERY", c))]
            res["check_" + c] = {"exit": rc, "lines": lines[:6]}
            shutil.rmtree(scratch, ignore_errors=True)
    finally:
        sh(["git", "checkout", "--", "."], cwd=wt)
    print(json.dumps(res, indent=1))
    return 0


if __name__ == "__main__":
    sys.exit(main(sys.argv[1:]))
