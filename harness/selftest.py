"""Binding self-test (run by setup): for every trace specification, a record taken from the REAL code is accepted, and
the same record with ONE field corrupted is rejected with the expected clause.  A trace spec that accepts a corrupted
record would be vacuous; a failure here is a machinery failure."""
import copy
import sys

from harness import tlc, calibrate, errrec, regex
from harness.common import import_lib, draft_classes
from harness.encode import enc, enc_str, enc_path


def cases():
    js = import_lib()
    cls = draft_classes()
    out = []     # (trace module, env, good record, corrupted record, clause expected)

    # C08
    good = {"id": 1, "kind": "pair", "a": enc([1, {"a": [0]}]), "b": enc([1.0, {"a": [False]}]),
            "c": [cls[d]({"const": [1, {"a": [0]}]}).is_valid([1.0, {"a": [False]}]) for d in (6, 7)],
            "e": [cls[d]({"enum": [[1, {"a": [0]}]]}).is_valid([1.0, {"a": [False]}]) for d in (3, 4, 6, 7)],
            "u": [cls[d]({"uniqueItems": True}).is_valid([[1, {"a": [0]}], [1.0, {"a": [False]}]]) for d in (3, 4, 6, 7)]}
    bad = copy.deepcopy(good)
    bad["e"][2] = not bad["e"][2]
    out.append(("trace/Trace_C08.tla", {}, good, bad, "enum"))

    # C09
    from harness import c09
    ob = c09.Observer(cls)
    obs, _ = ob.observe(1e308, 0.5)          # the float quotient overflows: the exact fallback decides
    good = {"id": 1, "x": enc(1e308), "b": enc(0.5), "obs": obs, "hasw": False, "k": [], "r": []}
    bad = copy.deepcopy(good)
    bad["obs"][1][4] = "invalid"
    out.append(("trace/Trace_C09.tla", {}, good, bad, "multipleOf"))

    # C01 verdict / C05 / C06 through Trace_Errors
    S = {"properties": {"a": {"type": "integer"}, "b": {"items": [{"type": "string"}, {"minimum": 2}]}}, "required": ["c", "d"]}
    I = {"a": "x", "b": [1, 1]}
    rec, _ = errrec.make_record(1, 7, cls[7], S, I, loc=True, with_restr=True)
    bad = copy.deepcopy(rec)
    bad["errs"] = bad["errs"][:-1]                                  # drop an error
    out.append(("trace/Trace_Errors.tla", "lib", rec, bad, "c05:spec_bag"))
    bad2 = copy.deepcopy(rec)
    for e in bad2["errs"]:
        if len(e["aip"]) == 2:
            e["inst"] = enc(999)                                    # the recorded instance is not what the path reaches
    out.append(("trace/Trace_Errors.tla", "lib", rec, bad2, "c06:inst_at_path"))
    good = {"id": 1, "d": 7, "S": enc(S), "I": enc(I), "base": [], "uselib": False, "pats": regex.pats_table([S]),
            "valid": cls[7](S).is_valid(I)}
    bad = dict(good, valid=not good["valid"])
    out.append(("trace/Trace_Verdict.tla", "lib", good, bad, "verdict"))

    # C14
    doc = {"a~1b": {"": [10, {"x/y": 5}]}}
    r = js.RefResolver("", doc)
    frag = "/a~01b//1/x~1y"
    good = {"id": 1, "doc": enc(doc), "frag": enc_str(frag), "out": "value", "v": enc(r.resolve_fragment(doc, frag))}
    bad = dict(good, v=enc(6))
    out.append(("trace/Trace_C14.tla", {}, good, bad, "wrong_value"))

    # C15: remove one fetch from the observed handler log
    from harness import c15
    c15.stub_network(js)
    rr, h = c15.make_resolver(js, True, "lru", {"r1": "ok", "r2": "ok"})
    ops = []
    for doc_, frag_ in (("r1", "ptr"), ("r1", "none"), ("r2", "empty")):
        res, store, _ = c15.observe(js, js.Draft7Validator, rr, h, doc_, frag_, False)
        ops.append({"doc": doc_, "frag": frag_, "res": res, "nfetch": len(h.calls), "store": store,
                    "calls": [c15.BYURL.get(u, u) for u in h.calls]})
    good = {"id": 1, "cr": True, "kind": "lru", "hm": [["r1", "ok"], ["r2", "ok"]], "remote": ["r1", "r2"],
            "local": ["s", "t", "meta"], "noptr": ["r2"], "ops": ops}
    bad = copy.deepcopy(good)
    bad["ops"][2]["calls"] = bad["ops"][2]["calls"] + ["r1"]       # a spurious second fetch of r1
    out.append(("trace/Trace_C15.tla", {}, good, bad, "unexplained_step"))

    # C17: a wrong total
    from harness import c17
    errs = list(cls[7]({"properties": {"a": {"type": "integer", "minimum": 3}}, "required": ["b"]}).iter_errors({"a": 1.5}))
    good = c17.project(js, errs)
    good["id"] = 1
    bad = copy.deepcopy(good)
    bad["nodes"][0]["total"] += 1
    out.append(("trace/Trace_C17.tla", {}, good, bad, "total_errors"))

    # C19: exit status of the last instance only
    good = {"id": 1, "schema": "valid", "insts": [{"k": "invalid", "n": 1}, {"k": "valid", "n": 0}], "pretty": False, "code": 1,
            "err": [{"t": "verr", "i": 1, "j": 1}], "out": []}
    bad = dict(good, code=0)
    out.append(("trace/Trace_C19.tla", {}, good, bad, "exit_status"))
    return out


def main():
    wd = tlc.workdir("selftest")
    lib = calibrate.write_lib(wd + "/lib.json")
    failed = 0
    for mod, env, good, bad, clause in cases():
        e = {"LIB_FILE": lib} if env == "lib" else {}
        g = dict(good, id=1)
        b = dict(bad, id=2)
        res, _ = tlc.validate_trace(mod, [g, b], "selftest-" + mod.split("_")[-1].split(".")[0], shards=1, env=e)
        got = {x["id"]: x["clauses"] for x in res}
        real1 = [c for c in got.get(1, []) if not c.startswith("~")]
        ok = not real1 and clause in got.get(2, [])
        print("selftest %-24s accepted-real=%s corrupted-rejected-with-%s=%s" % (mod, not real1, clause, clause in got.get(2, [])))
        if not ok:
            failed += 1
            print("   got:", got)
    tlc.cleanup("selftest")
    return 1 if failed else 0


if __name__ == "__main__":
    sys.exit(main())
