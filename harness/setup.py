"""setup_cmd: offline; regenerate generated modules and parse every specification module with SANY."""
import glob
import os
import sys

VERIF = os.path.dirname(os.path.dirname(os.path.abspath(__file__)))
sys.path.insert(0, VERIF)
from harness import gen_names, tlc  # noqa: E402


def main():
    gen_names.main()
    try:
        from harness import gen_meta
        gen_meta.main()
    except ImportError:
        pass
    bad = 0
    mods = sorted(glob.glob(os.path.join(VERIF, "spec", "*.tla")) + glob.glob(os.path.join(VERIF, "spec", "*", "*.tla")))
    from concurrent.futures import ThreadPoolExecutor
    with ThreadPoolExecutor(8) as ex:
        results = list(ex.map(tlc.sany, mods))
    for m, (ok, out) in zip(mods, results):
        if not ok:
            bad += 1
            print("SANY FAILED:", m)
            print(out[-1500:])
    print("setup: %d modules parsed, %d failed" % (len(mods), bad))
    if bad:
        return 1
    # the oracle must reproduce the official JSON-Schema-Test-Suite before any check is trusted
    from harness import calibrate
    rc = calibrate.main()
    if rc:
        return rc
    # binding self-test: real records accepted, corrupted records rejected with the right clause
    from harness import selftest
    return selftest.main()


if __name__ == "__main__":
    sys.exit(main())
