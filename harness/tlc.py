"""Running TLC and reading what it says.  TLC is the only oracle evaluator of this framework."""
import json
import os
import re
import shutil
import subprocess
import sys
import time
from concurrent.futures import ThreadPoolExecutor

VERIF = os.path.dirname(os.path.dirname(os.path.abspath(__file__)))
SPEC = os.path.join(VERIF, "spec")
CP = "/opt/veriftools/tla/tla2tools.jar:/opt/veriftools/tla/CommunityModules-deps.jar"
LIBPATH = os.pathsep.join([SPEC, os.path.join(SPEC, "mc"), os.path.join(SPEC, "trace"), os.path.join(SPEC, "gen")])


class MachineryFailure(Exception):
    """TLC/JVM/harness failed: exit status 2, never a VIOLATION."""


class TlcResult(object):
    def __init__(self):
        self.generated = 0
        self.distinct = 0
        self.depth = 0
        self.exports = []      # parsed JSON values printed with PrintT(ToJson(..))
        self.violation = None  # text of an invariant/property violation reported by TLC
        self.stdout = ""
        self.wall = 0.0
        self.coverage = {}     # action name -> distinct states (with -coverage)


_STATS = re.compile(r"^(\d+) states generated, (\d+) distinct states found, (\d+) states left on queue")
_DEPTH = re.compile(r"^The depth of the complete state graph search is (\d+)")
_VIOL = re.compile(r"^Error: (Invariant (\S+) is violated|Action property (\S+) is violated|Temporal properties were violated|Deadlock reached)")


def workdir(name):
    # per process: two runs of the same check at the same time (e.g. against different trees) never share scratch files
    d = os.path.join(VERIF, ".work", "%s-%d" % (name, os.getpid()))
    shutil.rmtree(d, ignore_errors=True)
    os.makedirs(d)
    return d


def cleanup(name):
    shutil.rmtree(os.path.join(VERIF, ".work", "%s-%d" % (name, os.getpid())), ignore_errors=True)


def run(module, cfg=None, workers=1, env=None, timeout=3600, simulate=None, depth=None, seed=None,
        wd=None, coverage=False, heap="6g", expect_violation=False, deadlock=None, extra=(), lazy_exports=False):
    """Run TLC on spec module `module` (path relative to spec/ or absolute).  Returns TlcResult.

    A TLC run that fails for any reason other than a reported property violation raises MachineryFailure.
    """
    mpath = module if os.path.isabs(module) else os.path.join(SPEC, module)
    if cfg is None:
        cfg = os.path.splitext(mpath)[0] + ".cfg"
    elif not os.path.isabs(cfg):
        cfg = os.path.join(SPEC, cfg)
    own = wd is None
    if own:
        wd = workdir("tlc-%d-%d" % (os.getpid(), int(time.time() * 1e6) % 10**9))
    meta = os.path.join(wd, "meta-%s-%d" % (os.path.basename(mpath), int(time.time() * 1e6) % 10**9))
    cmd = ["java", "-XX:+UseParallelGC", "-Xss256m", "-Xmx" + heap, "-DTLA-Library=" + LIBPATH, "-cp", CP, "tlc2.TLC",
           "-workers", str(workers), "-metadir", meta, "-noGenerateSpecTE", "-config", cfg]
    if simulate is not None:
        cmd += ["-simulate", simulate]
    if depth is not None:
        cmd += ["-depth", str(depth)]
    if seed is not None:
        cmd += ["-seed", str(seed)]
    if coverage:
        cmd += ["-coverage", "1"]
    if deadlock is False:
        cmd += ["-deadlock"]
    cmd += list(extra)
    cmd.append(mpath)
    e = dict(os.environ)
    e.update(env or {})
    t0 = time.time()
    try:
        p = subprocess.run(cmd, cwd=wd, env=e, stdout=subprocess.PIPE, stderr=subprocess.STDOUT,
                           timeout=timeout, universal_newlines=True)
    except subprocess.TimeoutExpired as ex:
        raise MachineryFailure("TLC timeout after %ss on %s" % (timeout, module))
    r = TlcResult()
    r.wall = time.time() - t0
    r.stdout = p.stdout
    lines = p.stdout.splitlines()
    # TLC's workers print exports in a run-dependent order: sorted, so that everything derived from an export's position
    # (which variant it is replayed in, what is sampled) is reproducible
    lines = sorted(l for l in lines if l.startswith('"{') or l.startswith('"[')) + \
        [l for l in lines if not (l.startswith('"{') or l.startswith('"['))]
    for line in lines:
        if line.startswith('"{') or line.startswith('"['):
            if lazy_exports:           # very large export sets: keep the text, the consumer parses (parse_export) one at a time
                r.exports.append(line)
                continue
            try:
                r.exports.append(json.loads(json.loads(line)))
            except ValueError:
                raise MachineryFailure("unparsable export line from TLC: %.200s" % line)
            continue
        m = _STATS.match(line)
        if m:
            r.generated, r.distinct = int(m.group(1)), int(m.group(2))
            continue
        m = _DEPTH.match(line)
        if m:
            r.depth = int(m.group(1))
            continue
        m = _VIOL.match(line)
        if m and r.violation is None:
            r.violation = line[len("Error: "):]
    if not lazy_exports:
        # header records (the instance / document tables the other exports refer to by index) stay in front
        r.exports.sort(key=lambda x: 0 if isinstance(x, dict) and ("instances" in x or "docs" in x) else 1)
    if simulate is not None:
        m = re.search(r"(\d+) states checked", p.stdout)
        if m:
            r.generated = r.distinct = int(m.group(1))
    if coverage:
        for m in re.finditer(r"^<(\w+) line .*?>: (\d+):(\d+)", p.stdout, re.M):
            r.coverage[m.group(1)] = (int(m.group(2)), int(m.group(3)))
    ok_end = ("Model checking completed. No error has been found." in p.stdout or
              (simulate is not None and p.returncode == 0))
    if r.violation is not None:
        if not expect_violation and own:
            pass
    elif not ok_end:
        tail = "\n".join(l for l in p.stdout.splitlines() if not re.match(r"^(Parsing|Semantic|Linting|\"[{\[])", l))[-3000:]
        raise MachineryFailure("TLC failed on %s (exit %s):\n%s" % (module, p.returncode, tail))
    shutil.rmtree(meta, ignore_errors=True)
    if own:
        shutil.rmtree(wd, ignore_errors=True)
    if lazy_exports:
        r.stdout = ""
    return r


def parse_export(line):
    try:
        return json.loads(json.loads(line))
    except ValueError:
        raise MachineryFailure("unparsable export line from TLC: %.200s" % line)


def run_many(jobs, parallel=16):
    """jobs: list of kwargs dicts for run(); executed in parallel JVMs."""
    with ThreadPoolExecutor(max_workers=parallel) as ex:
        futs = [ex.submit(run, **j) for j in jobs]
        return [f.result() for f in futs]


def validate_trace(module, records, name, shards=8, env=None, timeout=3600, heap="3g", min_shard=400):
    """Trace validation (M4): `records` (list of JSON-able dicts, each with a unique 'id') are written as
    ndjson shards; spec module `module` (under spec/trace) consumes one record per step and writes its total
    verdict.  Returns (bad, states) where bad is a list of {"id":..., "clauses":[...]}.
    """
    if not records:
        return [], 0
    wd = workdir("trace-" + name)
    n = max(1, min(shards, (len(records) + min_shard - 1) // min_shard))
    jobs = []
    for s in range(n):
        part = records[s::n]
        tf = os.path.join(wd, "trace-%d.ndjson" % s)
        of = os.path.join(wd, "out-%d.json" % s)
        with open(tf, "w") as f:
            for rec in part:
                f.write(json.dumps(rec, separators=(",", ":")) + "\n")
        e = dict(env or {})
        e.update({"TRACE_FILE": tf, "OUT_FILE": of})
        jobs.append(dict(module=module, workers=1, env=e, timeout=timeout, wd=wd, heap=heap))
    results = run_many(jobs, parallel=min(16, n))
    bad, states = [], 0
    for s, r in enumerate(results):
        of = os.path.join(wd, "out-%d.json" % s)
        if not os.path.exists(of):
            raise MachineryFailure("trace chain %s shard %d did not finish:\n%s" % (module, s, r.stdout[-2000:]))
        out = json.load(open(of))
        part = records[s::n]
        if out["checked"] != len(part):
            raise MachineryFailure("trace chain %s shard %d checked %s of %d" % (module, s, out["checked"], len(part)))
        bad.extend(out["bad"])
        states += r.distinct
    cleanup("trace-" + name)
    return bad, states


def sany(path):
    p = subprocess.run(["java", "-DTLA-Library=" + LIBPATH, "-cp", CP, "tla2sany.SANY", path],
                       stdout=subprocess.PIPE, stderr=subprocess.STDOUT, universal_newlines=True,
                       cwd=os.path.dirname(path))
    ok = p.returncode == 0 and "Semantic errors" not in p.stdout and "*** Errors" not in p.stdout and "Fatal" not in p.stdout
    return ok, p.stdout


def evaluate(exprs, extends, timeout=300):
    """Evaluate constant TLA+ expressions (debug/selftest helper): returns TLC's printed lines."""
    wd = workdir("eval-%d" % os.getpid())
    body = "\n".join("ASSUME PrintT(<<\"EV\", %d, %s>>)" % (i, e) for i, e in enumerate(exprs))
    with open(os.path.join(wd, "Ev.tla"), "w") as f:
        f.write("---- MODULE Ev ----\nEXTENDS %s, TLC\n%s\n====\n" % (extends, body))
    with open(os.path.join(wd, "Ev.cfg"), "w") as f:
        f.write("")
    cmd = ["java", "-Xss64m", "-DTLA-Library=" + LIBPATH, "-cp", CP, "tlc2.TLC", "-metadir", os.path.join(wd, "m"),
           "-noGenerateSpecTE", "-config", os.path.join(wd, "Ev.cfg"), os.path.join(wd, "Ev.tla")]
    p = subprocess.run(cmd, cwd=wd, stdout=subprocess.PIPE, stderr=subprocess.STDOUT, universal_newlines=True, timeout=timeout)
    shutil.rmtree(wd, ignore_errors=True)
    return "\n".join(l for l in p.stdout.splitlines() if not re.match(r"^(Parsing|Semantic|Linting|TLC2|Running|Starting|Finished|Computing)", l))
