"""A RefResolver subclass that observes every resolver event through public extension points (no in-tree hook):
push_scope / pop_scope / resolve / resolve_from_url / resolve_remote are overridden to log and delegate; the log is
written AFTER the delegated call returns (also on the error path), with a per-resolver sequence number."""
from harness.common import import_lib


def make_tracing_resolver_class():
    js = import_lib()

    class TracingResolver(js.RefResolver):
        def __init__(self, *a, **k):
            self.events = []
            self._seq = 0
            super().__init__(*a, **k)

        def _log(self, ev, **kw):
            self._seq += 1
            kw.update(ev=ev, seq=self._seq, depth=len(self._scopes_stack), top=self._scopes_stack[-1] if self._scopes_stack else None,
                      nstore=len(self.store))
            self.events.append(kw)

        def push_scope(self, scope):
            try:
                return super().push_scope(scope)
            finally:
                self._log("push", arg=scope)

        def pop_scope(self):
            try:
                return super().pop_scope()
            finally:
                self._log("pop")

        def resolve(self, ref):
            scope = self._scopes_stack[-1] if self._scopes_stack else None
            ok, url = False, None
            try:
                url, resolved = super().resolve(ref)
                ok = True
                return url, resolved
            except BaseException as e:
                url = type(e).__name__
                raise
            finally:
                self._log("resolve", scope=scope, ref=ref, ok=ok, url=url)

        def resolve_from_url(self, url):
            ok = False
            try:
                r = super().resolve_from_url(url)
                ok = True
                return r
            finally:
                self._log("from_url", url=url, ok=ok)

        def resolve_remote(self, uri):
            ok = False
            try:
                r = super().resolve_remote(uri)
                ok = True
                return r
            finally:
                self._log("remote", uri=uri, ok=ok)

    return TracingResolver


class CountingHandler(object):
    """a retrieval handler serving documents from a dict; counts calls; may be told to fail"""
    def __init__(self, docs):
        self.docs = dict(docs)
        self.calls = []
        self.failing = set()      # urls that currently fail
        self.fail_once = set()

    # "any failure of a handler": the exception class varies from call to call
    FAILURES = [IOError, ValueError, KeyError, TypeError, AttributeError, RuntimeError]

    def _fail(self, what, uri):
        exc = self.FAILURES[len(self.calls) % len(self.FAILURES)]
        if exc is ValueError:
            import json
            json.loads("<html>503 " + what + "</html>")       # a JSONDecodeError, as a real handler would produce
        raise exc("handler told to %s for %s" % (what, uri))

    def __call__(self, uri):
        import copy
        self.calls.append(uri)
        if uri in self.fail_once:
            self.fail_once.discard(uri)
            self._fail("fail once", uri)
        if uri in self.failing:
            self._fail("fail", uri)
        if uri not in self.docs:
            raise KeyError(uri)
        return copy.deepcopy(self.docs[uri])
