#!/bin/sh
# Offline setup: nothing to fetch; parse every specification module so a broken spec fails early.
cd "$(dirname "$0")" || exit 2
exec /venv/bin/python harness/setup.py
