---------------------------------- MODULE Cli ----------------------------------
(***************************************************************************)
(* C19: the command line as a run loop.                                    *)
(* Inputs: the state of the schema file ("missing" | "notjson" | "invalid" *)
(* | "valid"), the listed instances -- a sequence of kinds [k, n] with k in *)
(* "missing" | "notjson" | "valid" | "invalid" (n >= 1 errors) -- and the  *)
(* output mode (pretty or plain).                                          *)
(* Outputs: exit code, the sequence of stderr records and the sequence of  *)
(* stdout records:                                                         *)
(*   [t |-> "notfound", i]   unreadable file (i = 0: the schema)           *)
(*   [t |-> "parse", i]      unparsable file                               *)
(*   [t |-> "schemaerr"]     the schema fails check_schema                 *)
(*   [t |-> "verr", i, j]    j-th error the library reports for instance i *)
(*   [t |-> "success", i]    (stdout, pretty mode only)                    *)
(* The machine: LoadSchema, CheckSchema, then for each listed instance in  *)
(* order Load and, if loaded, Validate; the exit code accumulates.         *)
(***************************************************************************)
EXTENDS Integers, Sequences

NErrs(kind) == kind.n

\* one step of the instance loop on state st = [code, err, out]
StepInst(st, i, kind, pretty) ==
  CASE kind.k = "missing" -> [st EXCEPT !.code = 1, !.err = Append(@, [t |-> "notfound", i |-> i])]
    [] kind.k = "notjson" -> [st EXCEPT !.code = 1, !.err = Append(@, [t |-> "parse", i |-> i])]
    [] kind.k = "valid"   -> [st EXCEPT !.out = IF pretty THEN Append(@, [t |-> "success", i |-> i]) ELSE @]
    [] OTHER            -> [st EXCEPT !.code = 1,
                                      !.err = @ \o [j \in 1 .. NErrs(kind) |-> [t |-> "verr", i |-> i, j |-> j]]]

RECURSIVE Loop(_, _, _, _)
Loop(st, insts, k, pretty) == IF k > Len(insts) THEN st ELSE Loop(StepInst(st, k, insts[k], pretty), insts, k + 1, pretty)

St0 == [code |-> 0, err |-> <<>>, out |-> <<>>]
CliRun(schema, insts, pretty) ==
  CASE schema = "missing" -> [St0 EXCEPT !.code = 1, !.err = <<[t |-> "notfound", i |-> 0]>>]
    [] schema = "notjson" -> [St0 EXCEPT !.code = 1, !.err = <<[t |-> "parse", i |-> 0]>>]
    [] schema = "invalid" -> [St0 EXCEPT !.code = 1, !.err = <<[t |-> "schemaerr"]>>]
    [] OTHER              -> Loop(St0, insts, 1, pretty)

\* the property, stated on inputs and outputs
ExitZeroIff(schema, insts, r) ==
  (r.code = 0) <=> (schema = "valid" /\ \A k \in DOMAIN insts : insts[k].k = "valid")
EveryInstanceProcessed(schema, insts, r) ==
  schema = "valid" =>
    \A k \in DOMAIN insts :
      \/ (insts[k].k = "valid" /\ ~\E e \in DOMAIN r.err : "i" \in DOMAIN r.err[e] /\ r.err[e].i = k)
      \/ (insts[k].k # "valid" /\ \E e \in DOMAIN r.err : "i" \in DOMAIN r.err[e] /\ r.err[e].i = k)
=============================================================================
