----------------------------- MODULE EntryPoints -----------------------------
(***************************************************************************)
(* C04: the four entry points are views of one error sequence.             *)
(* For a validator, schema and instance let errs be what iter_errors       *)
(* yields (an observed error: [none, kw, ip, sp, msg, ctx]).  Then         *)
(*   is_valid            = (errs = <<>>)                                   *)
(*   validate()          raises nothing iff errs = <<>>, else errs[1]      *)
(*   module validate()   raises nothing iff errs = <<>>, else an element   *)
(*                       of BestCandidates(errs): a context-free member of *)
(*                       errs or a context-free descendant in the context  *)
(*                       trees (which one is a documented heuristic and is *)
(*                       not predicted) -- and it equals what the library's*)
(*                       own best_match returns on the same errors         *)
(*   invalid schema      module validate() raises SchemaError carrying the *)
(*                       fields of the first metaschema error, before the  *)
(*                       instance is looked at                             *)
(***************************************************************************)
EXTENDS Integers, Sequences, FiniteSets

RECURSIVE EqErr(_, _)
RECURSIVE EqErrSeq(_, _)
RECURSIVE EqErrBag(_, _)
\* identity of errors: keyword, message, path, schema path, context recursively (context as a sequence: the two
\* observations compared come from the same deterministic code path)
EqErr(a, b) == a.none = b.none /\ a.kw = b.kw /\ a.msg = b.msg /\ a.ip = b.ip /\ a.sp = b.sp /\ EqErrSeq(a.ctx, b.ctx)
EqErrSeq(x, y) == Len(x) = Len(y) /\ \A i \in DOMAIN x : EqErr(x[i], y[i])
EqErrBag(x, y) == Len(x) = Len(y) /\ \A i \in DOMAIN x :
                    Cardinality({ j \in DOMAIN x : EqErr(x[j], x[i]) }) = Cardinality({ j \in DOMAIN y : EqErr(y[j], x[i]) })

\* context-free members and context-free descendants
RECURSIVE Leaves(_)
Leaves(errs) == UNION { IF errs[i].ctx = <<>> THEN {errs[i]} ELSE Leaves(errs[i].ctx) : i \in DOMAIN errs }
IsBestCandidate(e, errs) == \E c \in Leaves(errs) : EqErr(c, e)

(***************************************************************************)
(* The documented best_match algorithm (docs: "errors higher up in the     *)
(* instance are better; anyOf/oneOf are weak; for those descend to the     *)
(* deepest"), as a model: relevance key = <<-len(path), kw not weak>>;     *)
(* best = max by key, then while it has context: min by key.  Only used to *)
(* model-check that the algorithm lands in BestCandidates (MC_C04).        *)
(***************************************************************************)
Weak == {"anyOf", "oneOf"}
KeyLess(a, b) ==      \* relevance(a) < relevance(b), lexicographic on <<-Len(path), not weak>>
  \/ -Len(a.ip) < -Len(b.ip)
  \/ (-Len(a.ip) = -Len(b.ip) /\ (a.kwn \in Weak) /\ ~(b.kwn \in Weak))
MaxBy(errs) == CHOOSE i \in DOMAIN errs : \A j \in DOMAIN errs : ~KeyLess(errs[i], errs[j]) /\ (j < i => KeyLess(errs[j], errs[i]))
MinBy(errs) == CHOOSE i \in DOMAIN errs : \A j \in DOMAIN errs : ~KeyLess(errs[j], errs[i]) /\ (j < i => KeyLess(errs[i], errs[j]))
RECURSIVE Descend(_)
Descend(e) == IF e.ctx = <<>> THEN e ELSE Descend(e.ctx[MinBy(e.ctx)])
BestMatchModel(errs) == Descend(errs[MaxBy(errs)])
=============================================================================
