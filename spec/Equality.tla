------------------------------ MODULE Equality ------------------------------
(***************************************************************************)
(* C08: enum, const and uniqueItems all use JSON equality (JsonValue!JsonEq)*)
(* at every nesting depth, in every draft.                                 *)
(***************************************************************************)
EXTENDS JsonValue

\* {"const": c} accepts x
ConstAccepts(c, x) == JsonEq(c, x)
\* {"enum": cs} accepts x      (cs a sequence of values)
EnumAccepts(cs, x) == MemberEq(cs, x)
\* {"uniqueItems": true} accepts the array value arr
UniqueAccepts(arr) == AllUnique(arr)

\* The three keywords agree (statement of C08): const c accepts x  <=>  enum [c] accepts x
\*                                              <=>  uniqueItems rejects [c, x]
Agree(c, x) == /\ ConstAccepts(c, x) <=> EnumAccepts(<<c>>, x)
               /\ ConstAccepts(c, x) <=> ~UniqueAccepts(JArr(<<c, x>>))
=============================================================================
