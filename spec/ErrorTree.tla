------------------------------ MODULE ErrorTree ------------------------------
(***************************************************************************)
(* C17: the tree of errors.  An error is [p |-> path, kw |-> keyword]      *)
(* (path: sequence of keys/indices, here plain TLA+ values).               *)
(*                                                                         *)
(* Incremental structure (what a constructor builds): a node is            *)
(*   [errs |-> set of keywords filed here, kids |-> function key -> node]  *)
(* AddTo walks/creates children along the path UNCONDITIONALLY (it never   *)
(* consults an instance) and files the error under its keyword.            *)
(*                                                                         *)
(* Declarative meaning (what users rely on), over the set of added errors: *)
(*   KwsAt(A, p), ChildKeys(A, p), Total(A, p).                            *)
(* MC_C17 checks that the incremental structure refines the declarative    *)
(* one after every AddError, in every arrival order.                       *)
(***************************************************************************)
EXTENDS Integers, Sequences, FiniteSets, SequencesExt

EmptyNode == [errs |-> {}, kids |-> <<>>]        \* kids: a function with an empty domain

KidOr(node, k) == IF k \in DOMAIN node.kids THEN node.kids[k] ELSE EmptyNode
RECURSIVE AddTo(_, _, _, _)
AddTo(node, path, i, kw) ==
  IF i > Len(path) THEN [node EXCEPT !.errs = @ \cup {kw}]
  ELSE LET k == path[i]
           sub == AddTo(KidOr(node, k), path, i + 1, kw)
       IN  [node EXCEPT !.kids = [x \in DOMAIN node.kids \cup {k} |-> IF x = k THEN sub ELSE node.kids[x]]]

RECURSIVE NodeAt(_, _, _)
NodeAt(node, path, i) == IF i > Len(path) THEN node
                         ELSE IF path[i] \in DOMAIN node.kids THEN NodeAt(node.kids[path[i]], path, i + 1) ELSE EmptyNode
RECURSIVE NodeTotal(_)
NodeTotal(node) == Cardinality(node.errs)
                   + (IF DOMAIN node.kids = {} THEN 0
                      ELSE LET ks == SetToSeq(DOMAIN node.kids) IN
                           FoldSeq(LAMBDA k, acc : acc + NodeTotal(node.kids[k]), 0, ks))

\* declarative meaning over the set A of added errors
IsPrefixOf(p, q) == Len(p) <= Len(q) /\ SubSeq(q, 1, Len(p)) = p
KwsAt(A, p)      == { e.kw : e \in { x \in A : x.p = p } }
ChildKeys(A, p)  == { e.p[Len(p) + 1] : e \in { x \in A : IsPrefixOf(p, x.p) /\ Len(x.p) > Len(p) } }
Total(A, p)      == Cardinality({ <<e.p, e.kw>> : e \in { x \in A : IsPrefixOf(p, x.p) } })
PathPrefixes(A)  == UNION { { SubSeq(e.p, 1, n) : n \in 0 .. Len(e.p) } : e \in A }
=============================================================================
