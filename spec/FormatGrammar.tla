---------------------------- MODULE FormatGrammar ----------------------------
(***************************************************************************)
(* C13: the grammars of the built-in formats that have a crisp independent *)
(* definition, as recognisers over code-point sequences.                   *)
(*   ipv4   four decimal octets 0-255 without leading zeros (ASCII digits) *)
(*   ipv6   RFC 4291 section 2.2 text forms: eight groups of 1-4 hex       *)
(*          digits; one "::" standing for one or more groups; an embedded  *)
(*          IPv4 tail in place of the last two groups; no zone id/prefix   *)
(*   date   RFC 3339 full-date YYYY-MM-DD naming a real calendar day       *)
(*   email  contains an "@"                                                *)
(***************************************************************************)
EXTENDS Integers, Sequences, FiniteSets

IsDigit(c) == c >= 48 /\ c <= 57
IsHexDigit(c) == IsDigit(c) \/ (c >= 65 /\ c <= 70) \/ (c >= 97 /\ c <= 102)
AllDigits(s) == \A i \in DOMAIN s : IsDigit(s[i])
RECURSIVE DecVal(_)
DecVal(s) == IF s = <<>> THEN 0 ELSE 10 * DecVal(SubSeq(s, 1, Len(s) - 1)) + (s[Len(s)] - 48)

\* split on a separator, keeping empty pieces
RECURSIVE SplitAt(_, _, _, _)
SplitAt(s, i, cur, sep) ==
  IF i > Len(s) THEN <<cur>>
  ELSE IF s[i] = sep THEN <<cur>> \o SplitAt(s, i + 1, <<>>, sep)
  ELSE SplitAt(s, i + 1, Append(cur, s[i]), sep)
Split(s, sep) == SplitAt(s, 1, <<>>, sep)

IsOctet(p) == /\ Len(p) >= 1 /\ Len(p) <= 3 /\ AllDigits(p)
              /\ (Len(p) = 1 \/ p[1] # 48)
              /\ DecVal(p) <= 255
IsIPv4(s) == LET ps == Split(s, 46) IN Len(ps) = 4 /\ \A i \in 1 .. 4 : IsOctet(ps[i])

IsGroup(g) == Len(g) >= 1 /\ Len(g) <= 4 /\ \A i \in DOMAIN g : IsHexDigit(g[i])
\* a colon-separated run of groups, possibly ending with an IPv4 tail: number of 16-bit groups it stands for, or -1
GroupsOf(s, tailAllowed) ==
  IF s = <<>> THEN 0
  ELSE LET ps == Split(s, 58)
           n == Len(ps)
           lastIs4 == tailAllowed /\ \E i \in DOMAIN ps[n] : ps[n][i] = 46
       IN  IF lastIs4
           THEN (IF IsIPv4(ps[n]) /\ \A i \in 1 .. (n - 1) : IsGroup(ps[i]) THEN n + 1 ELSE -1)
           ELSE (IF \A i \in 1 .. n : IsGroup(ps[i]) THEN n ELSE -1)
DoubleColons(s) == { i \in 1 .. (Len(s) - 1) : s[i] = 58 /\ s[i + 1] = 58 }
IsIPv6(s) ==
  LET dc == DoubleColons(s) IN
  IF dc = {} THEN GroupsOf(s, TRUE) = 8
  ELSE IF Cardinality(dc) > 1 THEN FALSE
  ELSE LET i == CHOOSE x \in dc : TRUE
           l == GroupsOf(SubSeq(s, 1, i - 1), FALSE)
           r == GroupsOf(SubSeq(s, i + 2, Len(s)), TRUE)
       IN  l >= 0 /\ r >= 0 /\ l + r <= 7

IsLeap(y) == (y % 4 = 0 /\ y % 100 # 0) \/ y % 400 = 0
DaysIn(y, m) == IF m \in {1, 3, 5, 7, 8, 10, 12} THEN 31 ELSE IF m \in {4, 6, 9, 11} THEN 30 ELSE IF IsLeap(y) THEN 29 ELSE 28
IsDate(s) ==
  /\ Len(s) = 10 /\ s[5] = 45 /\ s[8] = 45
  /\ AllDigits(SubSeq(s, 1, 4)) /\ AllDigits(SubSeq(s, 6, 7)) /\ AllDigits(SubSeq(s, 9, 10))
  /\ LET y == DecVal(SubSeq(s, 1, 4))  m == DecVal(SubSeq(s, 6, 7))  d == DecVal(SubSeq(s, 9, 10)) IN
       m >= 1 /\ m <= 12 /\ d >= 1 /\ d <= DaysIn(y, m)
\* the year 0000 is written by the RFC 3339 grammar but names no proleptic Gregorian year the library can hold:
\* left unclaimed
DateClaimed(s) == ~(Len(s) >= 4 /\ SubSeq(s, 1, 4) = <<48, 48, 48, 48>>)

IsEmail(s) == \E i \in DOMAIN s : s[i] = 64

InGrammar(fmt, s) ==
  CASE fmt = "ipv4" -> IsIPv4(s) [] fmt = "ipv6" -> IsIPv6(s) [] fmt = "date" -> IsDate(s) [] fmt = "email" -> IsEmail(s)
GrammarFormats == {"ipv4", "ipv6", "date", "email"}
=============================================================================
