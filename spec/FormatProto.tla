----------------------------- MODULE FormatProto -----------------------------
(***************************************************************************)
(* C12: the `format` keyword and the FormatChecker protocol.               *)
(* A checker is "none" (no checker given) or a function                    *)
(*     format name -> behaviour                                            *)
(* with behaviours: "truthy" / "falsy" (custom function returning a truthy *)
(* or falsy value), "listed" (raises an exception listed in `raises`),     *)
(* "unlisted" (raises any other exception), "intonly" (a custom function   *)
(* that tells 1 from true and from 1.0), "b:<g>" (a built-in checker of *)
(* grammar g: passes every non-string; strings by FormatGrammar).          *)
(* Instances: kinds "null" "true" "int" "float" "arr" "obj" and strings    *)
(* (code points).  Outcome of validating {"format": name}:                 *)
(*   "pass" | "error" (cause none) | "error-cause" (cause = the listed     *)
(*   exception) | "escape" (the unlisted exception reaches the caller)     *)
(***************************************************************************)
EXTENDS FormatGrammar

IsStrInst(x) == x.k = "str"
Outcome(chk, name, x) ==
  IF chk.none THEN "pass"
  ELSE IF name \notin DOMAIN chk.f THEN "pass"                 \* names the checker does not know always pass
  ELSE LET b == chk.f[name] IN
       CASE b = "truthy"   -> "pass"
         [] b = "falsy"    -> "error"
         [] b = "listed"   -> "error-cause"
         [] b = "unlisted" -> "escape"
         [] b = "intonly"  -> IF x.k = "int" THEN "pass" ELSE "error"   \* custom: true only for integers proper (not true, not 1.0)
         [] b = "b:email"  -> IF ~IsStrInst(x) \/ IsEmail(x.s) THEN "pass" ELSE "error-builtin"
         [] b = "b:ipv4"   -> IF ~IsStrInst(x) \/ IsIPv4(x.s) THEN "pass" ELSE "error-builtin"
         [] b = "b:ipv6"   -> IF ~IsStrInst(x) \/ IsIPv6(x.s) THEN "pass" ELSE "error-builtin"
         [] b = "b:date"   -> IF ~IsStrInst(x) \/ IsDate(x.s) THEN "pass" ELSE "error-builtin"
         [] b = "b:other"  -> IF ~IsStrInst(x) THEN "pass" ELSE "any"     \* built-ins without a grammar here
=============================================================================
