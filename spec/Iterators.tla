------------------------------ MODULE Iterators ------------------------------
(***************************************************************************)
(* Validators, their resolvers' scope stacks, and error iterators as       *)
(* suspended generators (C07, C18).                                        *)
(*                                                                         *)
(* An iteration of one (validator, instance) is described by its SCRIPT:   *)
(* the sequence of events a complete, undisturbed iteration performs --    *)
(*   [e |-> "push", a |-> scope text]   enter an id / a referenced schema  *)
(*   [e |-> "pop"]                      leave it                           *)
(*   [e |-> "res",  a |-> ref text, ok |-> BOOLEAN]  resolve a reference   *)
(*                                      against the scope in effect        *)
(*   [e |-> "yield", a |-> error id]    hand an error to the consumer      *)
(* A failing "res" (ok = FALSE) raises: the script ends there.             *)
(* Running a script from a scope stack produces outputs: for "res" the URL *)
(* the reference resolves to (RFC 3986, module Uri) -- so a wrong scope in *)
(* effect is visible --, for "yield" the error id.                         *)
(*                                                                         *)
(* Generator semantics: creating an iterator runs nothing; advancing it    *)
(* runs events up to and including the next yield; when it is closed,      *)
(* dropped, or a resolution raises, the pending `finally` blocks run: the  *)
(* pushes this iterator still has open are popped (innermost first).       *)
(* NoFinally = TRUE is the negative control (no unwinding).                *)
(***************************************************************************)
EXTENDS Uri, FiniteSets, TLC

CONSTANTS NoFinally

Top(stack) == stack[Len(stack)]

RECURSIVE PopN(_, _)
PopN(stack, n) == IF n = 0 \/ Len(stack) = 0 THEN stack ELSE PopN(Front(stack), n - 1)
Unwind(stack, open) == IF NoFinally THEN stack ELSE PopN(stack, open)

\* run script from position pc until `stop` further yields have been produced (stop = -1: to the end)
\* r = [stack, pc, open, out, status]
RECURSIVE RunFrom(_, _, _)
RunFrom(script, r, stop) ==
  IF r.pc > Len(script) THEN [r EXCEPT !.status = "done"]
  ELSE LET ev == script[r.pc] IN
       CASE ev.e = "push" -> RunFrom(script, [r EXCEPT !.stack = Append(@, ResolveText(Top(r.stack), ev.a)),
                                                      !.open = @ + 1, !.pc = @ + 1], stop)
         [] ev.e = "pop"  -> RunFrom(script, [r EXCEPT !.stack = Front(@), !.open = @ - 1, !.pc = @ + 1], stop)
         [] ev.e = "res"  -> LET url == ResolveText(Top(r.stack), ev.a)
                                 r2 == [r EXCEPT !.out = Append(@, [k |-> "res", v |-> url]), !.pc = @ + 1] IN
                             IF ev.ok THEN RunFrom(script, r2, stop)
                             ELSE [r2 EXCEPT !.stack = Unwind(@, r.open), !.open = 0, !.status = "raised"]
         [] ev.e = "yield" -> LET r2 == [r EXCEPT !.out = Append(@, [k |-> "yield", v |-> ev.a]), !.pc = @ + 1] IN
                              IF stop = 1 THEN [r2 EXCEPT !.status = "suspended"]
                              ELSE RunFrom(script, r2, IF stop = -1 THEN -1 ELSE stop - 1)

\* exactly ONE event (micro-step): used where events of different validators interleave (C18, thread schedules)
StepOne(script, r) ==
  IF r.pc > Len(script) THEN [r EXCEPT !.status = "done"]
  ELSE LET ev == script[r.pc] IN
       CASE ev.e = "push" -> [r EXCEPT !.stack = Append(@, ResolveText(Top(r.stack), ev.a)), !.open = @ + 1, !.pc = @ + 1,
                                       !.status = IF r.pc = Len(script) THEN "done" ELSE "running"]
         [] ev.e = "pop"  -> [r EXCEPT !.stack = Front(@), !.open = @ - 1, !.pc = @ + 1,
                                       !.status = IF r.pc = Len(script) THEN "done" ELSE "running"]
         [] ev.e = "res"  -> LET url == ResolveText(Top(r.stack), ev.a)
                                 r2 == [r EXCEPT !.out = Append(@, [k |-> "res", v |-> url]), !.pc = @ + 1] IN
                             IF ev.ok THEN [r2 EXCEPT !.status = IF r.pc = Len(script) THEN "done" ELSE "running"]
                             ELSE [r2 EXCEPT !.stack = Unwind(@, r.open), !.open = 0, !.status = "raised"]
         [] ev.e = "yield" -> [r EXCEPT !.out = Append(@, [k |-> "yield", v |-> ev.a]), !.pc = @ + 1,
                                        !.status = IF r.pc = Len(script) THEN "done" ELSE "running"]

Fresh(stack) == [stack |-> stack, pc |-> 1, open |-> 0, out |-> <<>>, status |-> "fresh"]
\* closing / dropping a suspended iterator: the pending finally blocks run
CloseIt(r) == IF r.status = "suspended" THEN [r EXCEPT !.stack = Unwind(@, r.open), !.open = 0, !.status = "closed"] ELSE r

\* what an undisturbed run from the base scope yields
Solo(base, script) == RunFrom(script, Fresh(<<base>>), -1)

\* well-formedness of a script: pops never exceed pushes, ends balanced unless it ends with a failing res
RECURSIVE Depths(_, _, _)
Depths(script, k, d) == IF k > Len(script) THEN <<d>>
                        ELSE <<d>> \o Depths(script, k + 1, IF script[k].e = "push" THEN d + 1 ELSE IF script[k].e = "pop" THEN d - 1 ELSE d)
WellNested(script) ==
  LET ds == Depths(script, 1, 0) IN
  /\ \A i \in DOMAIN ds : ds[i] >= 0
  /\ \A i \in DOMAIN script : (script[i].e = "res" /\ ~script[i].ok) => i = Len(script)
  /\ (script = <<>> \/ script[Len(script)].e # "res" \/ script[Len(script)].ok) => ds[Len(ds)] = 0
=============================================================================
