------------------------------ MODULE JsonValue ------------------------------
(***************************************************************************)
(* The JSON data model used by every other module (DESIGN.md 4.1).         *)
(*                                                                         *)
(*   [t |-> "null"]                                                        *)
(*   [t |-> "bool", b |-> BOOLEAN]                                         *)
(*   [t |-> "num",  neg, bits, fl]                    see Num               *)
(*   [t |-> "str",  s |-> Seq(Nat)]                   Unicode code points   *)
(*   [t |-> "arr",  e |-> Seq(JsonValue)]                                   *)
(*   [t |-> "obj",  k |-> Seq(Seq(Nat)), v |-> Seq(JsonValue)]  keys unique*)
(*                                                                         *)
(* Strings are sequences of code points, so length counts code points and  *)
(* no character needs special care.  Objects keep two parallel sequences   *)
(* so that equality is DEFINED (order-independent) rather than inherited.  *)
(***************************************************************************)
EXTENDS Num

IsNull(x) == x.t = "null"
IsBool(x) == x.t = "bool"
IsNum(x)  == x.t = "num"
IsStr(x)  == x.t = "str"
IsArr(x)  == x.t = "arr"
IsObj(x)  == x.t = "obj"

JNull     == [t |-> "null"]
JBool(b)  == [t |-> "bool", b |-> b]
JStr(s)   == [t |-> "str", s |-> s]
JArr(e)   == [t |-> "arr", e |-> e]
JObj(k,v) == [t |-> "obj", k |-> k, v |-> v]
JInt(bits)   == [t |-> "num", neg |-> FALSE, bits |-> bits, fl |-> FALSE]
JNegInt(bits) == [t |-> "num", neg |-> TRUE, bits |-> bits, fl |-> FALSE]
JFloat(neg, bits) == [t |-> "num", neg |-> neg, bits |-> bits, fl |-> TRUE]
JTrue  == JBool(TRUE)
JFalse == JBool(FALSE)
EmptyObj == JObj(<<>>, <<>>)
EmptyArr == JArr(<<>>)

\* object access by key (a code-point sequence)
HasKey(o, key) == \E i \in DOMAIN o.k : o.k[i] = key
KeyIndex(o, key) == CHOOSE i \in DOMAIN o.k : o.k[i] = key
Get(o, key) == o.v[KeyIndex(o, key)]
Has(o, key) == IsObj(o) /\ HasKey(o, key)

(***************************************************************************)
(* JSON equality (the relation enum, const and uniqueItems must use, C08): *)
(* numbers by mathematical value, a boolean never equals a number, strings *)
(* by code points, arrays element-wise in order, objects as sets of        *)
(* members regardless of order; recursively.                               *)
(***************************************************************************)
RECURSIVE JsonEq(_, _)
JsonEq(a, b) ==
  /\ a.t = b.t
  /\ CASE a.t = "null" -> TRUE
       [] a.t = "bool" -> a.b = b.b
       [] a.t = "num"  -> NumEq(a, b)
       [] a.t = "str"  -> a.s = b.s
       [] a.t = "arr"  -> /\ Len(a.e) = Len(b.e)
                          /\ \A i \in DOMAIN a.e : JsonEq(a.e[i], b.e[i])
       [] a.t = "obj"  -> /\ Len(a.k) = Len(b.k)
                          /\ \A i \in DOMAIN a.k : \E j \in DOMAIN b.k :
                                a.k[i] = b.k[j] /\ JsonEq(a.v[i], b.v[j])

\* all elements pairwise different under JsonEq
AllUnique(arr) == \A i, j \in DOMAIN arr.e : i < j => ~JsonEq(arr.e[i], arr.e[j])

\* some element of sequence `vals` is JsonEq to x
MemberEq(vals, x) == \E i \in DOMAIN vals : JsonEq(vals[i], x)

(***************************************************************************)
(* JSON types per draft.  d \in {3, 4, 6, 7}.  `name` is a TLA+ string.    *)
(* Drafts 3/4: "integer" is a number held as an integer (Python int);      *)
(* drafts 6/7: any number with a zero fractional part.                     *)
(***************************************************************************)
IsIntegerFor(d, x) == IsNum(x) /\ (IF d >= 6 THEN IsIntegral(x) ELSE ~x.fl)

HasType(d, x, name) ==
  CASE name = "null"    -> IsNull(x)
    [] name = "boolean" -> IsBool(x)
    [] name = "number"  -> IsNum(x)
    [] name = "integer" -> IsIntegerFor(d, x)
    [] name = "string"  -> IsStr(x)
    [] name = "array"   -> IsArr(x)
    [] name = "object"  -> IsObj(x)
    [] name = "any"     -> d = 3
    [] OTHER            -> FALSE

TypeNames(d) == {"null", "boolean", "number", "integer", "string", "array", "object"}
                  \cup (IF d = 3 THEN {"any"} ELSE {})
=============================================================================
