-------------------------------- MODULE Locate --------------------------------
(***************************************************************************)
(* C06: what it means for an error to locate itself truthfully.            *)
(* An observed error is a record                                           *)
(*   [kw, none, ip, sp, aip, asp, ctx, inst, kwval, sch, jp, msg]          *)
(* kw keyword (code points; none = TRUE when the error has no keyword),    *)
(* ip/sp relative and aip/asp absolute paths, inst/kwval/sch the recorded  *)
(* instance, keyword value and subschema, jp the json_path text.           *)
(***************************************************************************)
EXTENDS Semantics

\* ---- navigation in the schema, hopping through reference objects ----
IsRefObj(n) == IsObj(n) /\ HasKey(n, K_d_ref) /\ IsStr(Get(n, K_d_ref))

\* follow references until the node is not a reference object (fuel-bounded)
RECURSIVE Deref(_, _, _, _)
Deref(d, env, node, fuel) ==
  IF ~IsRefObj(node) \/ fuel = 0 THEN [ok |-> ~IsRefObj(node), node |-> node, env |-> env]
  ELSE LET env2 == WithId(d, env, node)
           t == Target(env2, Get(node, K_d_ref).s)
       IN  IF ~t.dom \/ ~t.ok THEN [ok |-> FALSE, node |-> node, env |-> env]
           ELSE Deref(d, [env2 EXCEPT !.base = t.base], t.node, fuel - 1)

MapKws   == {K_properties, K_patternProperties, K_dependencies}
ArrayKws == {K_allOf, K_anyOf, K_oneOf, K_items, K_extends, K_type, K_disallow}

\* walk `path` (from position k) starting at schema node `node`; result [ok, v, pn]:
\* v the value reached, pn whether the walk went through propertyNames
RECURSIVE Nav(_, _, _, _, _, _)
Nav(d, env, node0, path, k, pn) ==
  LET dr == Deref(d, env, node0, FMAX) IN
  IF ~dr.ok THEN [ok |-> FALSE, pn |-> pn]
  ELSE LET node == dr.node
           env2 == IF IsObj(node) THEN WithId(d, dr.env, node) ELSE dr.env
       IN
    IF k > Len(path) THEN [ok |-> TRUE, v |-> node, pn |-> pn]
    ELSE IF ~IsObj(node) \/ ~IsKeyEl(path[k]) \/ ~HasKey(node, path[k].s) THEN [ok |-> FALSE, pn |-> pn]
    ELSE LET kw == path[k].s
             val == Get(node, kw)
             pn2 == pn \/ kw = K_propertyNames
         IN  IF k = Len(path) THEN [ok |-> TRUE, v |-> val, pn |-> pn2]
             ELSE IF kw \in MapKws /\ IsObj(val)
                  THEN (IF IsKeyEl(path[k + 1]) /\ HasKey(val, path[k + 1].s)
                        THEN (IF k + 1 = Len(path) THEN [ok |-> TRUE, v |-> Get(val, path[k + 1].s), pn |-> pn2]
                              ELSE Nav(d, env2, Get(val, path[k + 1].s), path, k + 2, pn2))
                        ELSE [ok |-> FALSE, pn |-> pn2])
             ELSE IF kw \in ArrayKws /\ IsArr(val)
                  THEN (IF ~IsKeyEl(path[k + 1]) /\ path[k + 1].i >= 0 /\ path[k + 1].i < Len(val.e)
                        THEN (IF k + 1 = Len(path) THEN [ok |-> TRUE, v |-> val.e[path[k + 1].i + 1], pn |-> pn2]
                              ELSE Nav(d, env2, val.e[path[k + 1].i + 1], path, k + 2, pn2))
                        ELSE [ok |-> FALSE, pn |-> pn2])
             ELSE Nav(d, env2, val, path, k + 1, pn2)

\* ---- json_path text ----
RECURSIVE JsonPathFrom(_, _)
JsonPathFrom(path, k) ==
  IF k > Len(path) THEN <<>>
  ELSE (IF IsKeyEl(path[k]) THEN <<46>> \o path[k].s ELSE <<91>> \o DecText(path[k].i) \o <<93>>)
       \o JsonPathFrom(path, k + 1)
JsonPathText(path) == <<36>> \o JsonPathFrom(path, 1)

\* ---- the clauses of C06 for one observed error e (root schema S, validated instance I) ----
\* pabs/psabs: the parent's absolute paths (<<>> at top level)
LocClauses(d, env, S, I, e, paip, pasp) ==
  LET isD3Req  == d = 3 /\ ~e.none /\ e.kw = K_required
      nav      == Nav(d, env, S, e.asp, 1, FALSE)
      underPN  == nav.pn
      at       == At(I, e.aip, 1)
  IN
    (IF e.aip = paip \o e.ip /\ e.asp = pasp \o e.sp THEN {} ELSE {"abs_is_parent_rel"})
    \cup (IF e.jp = JsonPathText(e.aip) THEN {} ELSE {"json_path"})
    \cup (IF isD3Req \/ underPN THEN {}                       \* documented exceptions: no path addresses it
          ELSE IF at.ok /\ at.v = e.inst THEN {} ELSE {"inst_at_path"})
    \cup (IF e.none
          THEN (IF nav.ok /\ nav.v = JFalse /\ e.sch = JFalse THEN {} ELSE {"false_schema_path"})
          ELSE IF isD3Req
               THEN (IF nav.ok /\ nav.v = e.kwval THEN {} ELSE {"schema_at_spath"})
               ELSE (IF e.asp # <<>> /\ IsKeyEl(e.asp[Len(e.asp)]) /\ e.asp[Len(e.asp)].s = e.kw THEN {} ELSE {"kw_is_last"})
                    \cup (IF IsObj(e.sch) /\ HasKey(e.sch, e.kw) /\ Get(e.sch, e.kw) = e.kwval THEN {} ELSE {"sch_has_kw"})
                    \cup (IF nav.ok /\ nav.v = e.kwval THEN {} ELSE {"schema_at_spath"}))

RECURSIVE AllLocClauses(_, _, _, _, _, _, _)
AllLocClauses(d, env, S, I, es, paip, pasp) ==
  UNION { LocClauses(d, env, S, I, es[k], paip, pasp)
          \cup AllLocClauses(d, env, S, I, es[k].ctx, es[k].aip, es[k].asp) : k \in DOMAIN es }
=============================================================================
