--------------------------------- MODULE Meta ---------------------------------
(***************************************************************************)
(* The bundled metaschemas, read at check time from the working tree       *)
(* (LIB_FILE is regenerated on every run from /repo/jsonschema/schemas),   *)
(* and acceptance of a candidate schema: the candidate satisfies the       *)
(* draft's metaschema under that draft's own rules (C11).  The first four  *)
(* entries of the library are the metaschemas of drafts 3, 4, 6, 7.        *)
(***************************************************************************)
EXTENDS Semantics, Json, IOUtils

Lib == JsonDeserialize(IOEnv.LIB_FILE)

MetaIndex(d) == CASE d = 3 -> 1 [] d = 4 -> 2 [] d = 6 -> 3 [] d = 7 -> 4
MetaDoc(d)   == Lib[MetaIndex(d)].doc
MetaBase(d)  == LET m == MetaDoc(d) IN IF Has(m, IdKw(d)) /\ IsStr(Get(m, IdKw(d))) THEN Get(m, IdKw(d)).s ELSE <<>>
MetaEnv(d)   == [docs |-> <<[u |-> Defrag(MetaBase(d))[1], doc |-> MetaDoc(d)]>> \o Lib, base |-> MetaBase(d), pats |-> <<>>]

\* result of evaluating the metaschema of draft d on candidate schema S
MetaRun(d, S) == Run(d, MetaEnv(d), MetaDoc(d), S)
Accepts(d, S) == MetaRun(d, S).errs = <<>>
=============================================================================
