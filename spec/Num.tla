-------------------------------- MODULE Num --------------------------------
(***************************************************************************)
(* Exact JSON numbers of any magnitude, using small integers only.         *)
(*                                                                         *)
(* Every number Python can hold as an int or a finite float is a dyadic    *)
(* rational: +- a finite sum of powers of two.  A number is the record     *)
(*     [t |-> "num", neg |-> BOOLEAN, bits |-> <<e1, e2, ...>>, fl |-> B]  *)
(* whose magnitude is the sum of 2^e over the exponents listed in `bits`   *)
(* (strictly decreasing; <<>> is zero).  `fl` says that the Python object  *)
(* is a float (matters only for "type": "integer" in drafts 3/4 and for    *)
(* delimiting the exact domain of multipleOf).                             *)
(* A *magnitude* below is the SET of exponents.                            *)
(***************************************************************************)
EXTENDS Integers, Sequences, FiniteSets, FiniteSetsExt

SeqRange(s) == { s[i] : i \in DOMAIN s }
Mag(n)      == SeqRange(n.bits)

\* linear-time maximum / minimum of a non-empty finite set of integers (FoldSet is evaluated iteratively)
MaxOf(S) == FoldSet(LAMBDA a, acc : IF a > acc THEN a ELSE acc, CHOOSE z \in S : TRUE, S)
MinOf(S) == FoldSet(LAMBDA a, acc : IF a < acc THEN a ELSE acc, CHOOSE z \in S : TRUE, S)


\* -1, 0, 1 : compare two magnitudes.  The larger one owns the highest exponent on which they differ.
MagCmp(A, B) == IF A = B THEN 0 ELSE IF MaxOf(SymDiff(A, B)) \in A THEN 1 ELSE -1

IsZero(n) == n.bits = <<>>

\* sign of a number: -1, 0, 1   (-0.0 is zero)
Sign(n) == IF IsZero(n) THEN 0 ELSE IF n.neg THEN -1 ELSE 1

\* -1, 0, 1 : exact comparison of two numbers
Cmp(a, b) ==
  LET sa == Sign(a)  sb == Sign(b) IN
  IF sa # sb THEN (IF sa < sb THEN -1 ELSE 1)
  ELSE IF sa = 0 THEN 0
  ELSE IF sa = 1 THEN MagCmp(Mag(a), Mag(b)) ELSE MagCmp(Mag(b), Mag(a))

NumEq(a, b) == Cmp(a, b) = 0
Lt(a, b) == Cmp(a, b) < 0
Le(a, b) == Cmp(a, b) <= 0

\* the number is an integer (mathematically): no negative exponent
IsIntegral(n) == \A e \in Mag(n) : e >= 0

Shift(A, k) == { e + k : e \in A }

\* addition of magnitudes by carry propagation
RECURSIVE MagAdd(_, _)
MagAdd(X, Y) == IF Y = {} THEN X ELSE MagAdd(SymDiff(X, Y), { e + 1 : e \in X \cap Y })

\* subtraction of magnitudes, defined for X >= Y: cancel the common exponents, then borrow:
\*   2^x - 2^y  =  2^y + 2^(y+1) + ... + 2^(x-1)     for the smallest x of X above y
RECURSIVE MagSub(_, _)
MagSub(X, Y) ==
  LET c == X \cap Y  X1 == X \ c  Y1 == Y \ c IN
  IF Y1 = {} THEN X1
  ELSE LET y == MaxOf(Y1)
           x == MinOf({ e \in X1 : e > y })
       IN  MagSub((X1 \ {x}) \cup (y .. (x - 1)), Y1 \ {y})

\* remainder of magnitude A modulo magnitude B (B # {}), by shift-and-subtract long division.
\* The number of steps is bounded by MaxOf(A) - MaxOf(B) + 1.
RECURSIVE MagMod(_, _)
MagMod(A, B) ==
  IF A = {} \/ MagCmp(A, B) < 0 THEN A
  ELSE LET s  == MaxOf(A) - MaxOf(B)
           B1 == Shift(B, s)
       IN  IF MagCmp(A, B1) >= 0 THEN MagMod(MagSub(A, B1), B)
           ELSE MagMod(MagSub(A, Shift(B, s - 1)), B)

\* 2^e mod q for a small odd q (q*q must fit in 31 bits), e >= 0
RECURSIVE PowMod(_, _)
PowMod(e, q) ==
  IF e = 0 THEN 1 % q
  ELSE LET h == PowMod(e \div 2, q)  hh == (h * h) % q IN
       IF e % 2 = 0 THEN hh ELSE (2 * hh) % q

\* (sum of 2^e over e in A) mod q  -- folded iteratively (FiniteSetsExt!FoldSet), so dense magnitudes with
\* thousands of bits do not recurse
SumMod(A, q) == FoldSet(LAMBDA e, acc : (PowMod(e, q) + acc) % q, 0, A)

\* value of a small magnitude as a TLC integer (only for magnitudes below 2^30)
RECURSIVE Pow2(_)
Pow2(e) == IF e = 0 THEN 1 ELSE 2 * Pow2(e - 1)
SmallVal(A) == FoldSet(LAMBDA e, acc : Pow2(e) + acc, 0, A)

\* odd part and 2-adic valuation of a non-zero magnitude:  A = OddPart(A) * 2^Val2(A)
Val2(A)    == MinOf(A)
OddPart(A) == Shift(A, -MinOf(A))

IsSmall(A) == A = {} \/ MaxOf(A) <= 14        \* fits well inside 15 bits: products stay below 2^31

(***************************************************************************)
(* Divisibility.  x is a multiple of b (b # 0) iff x / b is an integer.    *)
(* Write |x| = X * 2^vx and |b| = B * 2^vb with X, B odd.  Then x/b is an  *)
(* integer iff x = 0, or (vx >= vb and B divides X).                       *)
(* The spec decides this when B is small (modular exponentiation), or when *)
(* the long division is short (CanDivide).                                 *)
(***************************************************************************)
DivSteps(X, B) == MaxOf(X) - MaxOf(B) + 1

CanDivide(x, b) ==
  \/ IsZero(x)
  \/ Val2(Mag(x)) < Val2(Mag(b))
  \/ LET X == OddPart(Mag(x))  B == OddPart(Mag(b)) IN
       IsSmall(B) \/ DivSteps(X, B) <= 160

Divides(b, x) ==
  \/ IsZero(x)
  \/ /\ Val2(Mag(x)) >= Val2(Mag(b))
     /\ LET X == OddPart(Mag(x))  B == OddPart(Mag(b)) IN
          IF IsSmall(B) THEN SumMod(X, SmallVal(B)) = 0
          ELSE MagMod(X, B) = {}

(***************************************************************************)
(* Which numbers Python can hold as a float, and properties of quotients   *)
(* used to delimit the exact sub-domain of multipleOf (C09).               *)
(***************************************************************************)
Span(A) == MaxOf(A) - MinOf(A)

\* representable as an IEEE-754 binary64 (normal or subnormal)
IsDouble(A) == A = {} \/ (MaxOf(A) <= 1023 /\ MinOf(A) >= -1074 /\ Span(A) <= 52)

\* magnitude at most 2^53
AtMost2p53(A) == A = {} \/ MaxOf(A) < 53 \/ A = {53}

IsPow2(A) == Cardinality(A) = 1
=============================================================================
