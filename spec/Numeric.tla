------------------------------ MODULE Numeric ------------------------------
(***************************************************************************)
(* C09: minimum / maximum / exclusive forms and multipleOf / divisibleBy   *)
(* on the exact mathematical values (module Num), for numbers of any       *)
(* magnitude.  Outcomes are "valid" / "invalid"; no finite number makes    *)
(* any of these keywords raise.                                            *)
(***************************************************************************)
EXTENDS JsonValue, FiniteSetsExt

\* minimum b (exclusive or not) accepts x;  maximum likewise
MinOK(x, b, excl) == IF excl THEN Cmp(x, b) > 0 ELSE Cmp(x, b) >= 0
MaxOK(x, b, excl) == IF excl THEN Cmp(x, b) < 0 ELSE Cmp(x, b) <= 0

\* both keywords of a pair in one schema object (drafts 6/7): {"maximum": b, "exclusiveMaximum": 2^1300} and
\* {"minimum": b, "exclusiveMinimum": -2^1300} -- the second keyword must not disturb the first
FarAbove == [t |-> "num", neg |-> FALSE, bits |-> <<1300>>, fl |-> FALSE]
FarBelow == [t |-> "num", neg |-> TRUE, bits |-> <<1300>>, fl |-> FALSE]
MaxPairOK(x, b) == MaxOK(x, b, FALSE) /\ MaxOK(x, FarAbove, TRUE)
MinPairOK(x, b) == MinOK(x, b, FALSE) /\ MinOK(x, FarBelow, TRUE)

\* multipleOf b accepts x  (b > 0):  x / b is an integer
MultOK(x, b) == Divides(b, x)

(***************************************************************************)
(* Exact sub-domain of multipleOf (quantifier text of C09).                *)
(*  - both operands integers: any size.                                    *)
(*  - otherwise every integer operand has magnitude <= 2^53, and           *)
(*      * x is zero, or                                                    *)
(*      * the divisor is an integer and the instance a float (the          *)
(*        remainder of two exactly converted doubles is exact), or         *)
(*      * the divisor is a float and the exact quotient x/b is a dyadic    *)
(*        rational that a double holds exactly (in particular: b a power   *)
(*        of two and no underflow; x = k*b; x = k*b + b/2^j), or is so     *)
(*        large that the division overflows (exact fallback).              *)
(* The quotient q = x/b is dyadic iff OddPart(b) divides OddPart(x); then  *)
(* with B | X the quotient has odd part X/B.  To stay within what the spec *)
(* computes without big division, the float clause is claimed when         *)
(* B = 1 (power-of-two divisor; q is a shift of x), or when x/b is an      *)
(* integer below 2^53 or x/b * 2^j is (x = k*b + b/2^j): both are decided  *)
(* by Divides on shifted operands.                                         *)
(***************************************************************************)
IntOpsSmall(x, b) == (~x.fl => AtMost2p53(Mag(x))) /\ (~b.fl => AtMost2p53(Mag(b)))

\* b = 2^t: quotient magnitude is Mag(x) shifted by -t
PowQuot(x, b) == Shift(Mag(x), -MaxOf(Mag(b)))
PowQuotExact(x, b) == LET q == PowQuot(x, b) IN MaxOf(q) >= 1024 \/ IsDouble(q)

\* x / b = k / 2^j for an integer k with |k| < 2^53 and 0 <= j <= 52: the quotient is a double exactly.
\* x * 2^j is a multiple of b, and the magnitude of the integer quotient is below 2^53: since
\* |x * 2^j / b| < 2^(MaxOf(x) + j - MaxOf(b) + 1), it suffices that MaxOf(x) + j - MaxOf(b) + 1 <= 53.
ScaledMultiple(x, b, j) ==
  /\ MaxOf(Mag(x)) + j - MaxOf(Mag(b)) + 1 <= 53
  /\ LET xs == [x EXCEPT !.bits = [i \in DOMAIN x.bits |-> x.bits[i] + j]] IN CanDivide(xs, b) /\ Divides(b, xs)
SmallQuot(x, b) == \E j \in {0, 1, 2, 3, 8, 52} : ScaledMultiple(x, b, j)

ExactMultDomain(x, b) ==
  \/ (~x.fl /\ ~b.fl)
  \/ /\ IntOpsSmall(x, b)
     /\ \/ IsZero(x)
        \/ (~b.fl /\ x.fl)
        \/ /\ b.fl
           /\ \/ (IsPow2(Mag(b)) /\ PowQuotExact(x, b))
              \/ SmallQuot(x, b)

\* the spec can decide divisibility (Num!CanDivide) -- otherwise the record is out of the oracle's reach
Decidable(x, b) == CanDivide(x, b)

(***************************************************************************)
(* Witnessed division for dense huge operands (trace records may carry k   *)
(* and r with |x| = k*|b| + r, 0 <= r < |b|; TLC verifies the witness by   *)
(* multiplication and addition on bit sets, then r = 0 decides).           *)
(***************************************************************************)
MagMul(K, B) == FoldSet(LAMBDA e, acc : MagAdd(acc, Shift(B, e)), {}, K)
WitnessOK(x, b, k, r) == /\ MagAdd(MagMul(SeqRange(k), Mag(b)), SeqRange(r)) = Mag(x)
                         /\ MagCmp(SeqRange(r), Mag(b)) < 0
=============================================================================
