------------------------------- MODULE Pointer -------------------------------
(***************************************************************************)
(* JSON Pointer (RFC 6901) and its URI-fragment representation (RFC 6901   *)
(* section 6 + RFC 3986 percent-encoding), over code-point sequences.      *)
(*                                                                         *)
(* A path is a sequence of path elements [s |-> key] / [i |-> index]       *)
(* (index 0-based as in JSON Pointer).                                     *)
(***************************************************************************)
EXTENDS JsonValue, SequencesExt

PS(key) == [s |-> key]
PI(n)   == [i |-> n]
IsKeyEl(el) == "s" \in DOMAIN el

----------------------------------------------------------------------------
(* text helpers *)
RECURSIVE DecText(_)
DecText(n) == IF n < 10 THEN <<48 + n>> ELSE DecText(n \div 10) \o <<48 + (n % 10)>>

HexDigit(n) == IF n < 10 THEN 48 + n ELSE 55 + n          \* upper case A-F
HexVal(c) == IF c >= 48 /\ c <= 57 THEN c - 48
             ELSE IF c >= 65 /\ c <= 70 THEN c - 55
             ELSE IF c >= 97 /\ c <= 102 THEN c - 87 ELSE -1
IsHex(c) == HexVal(c) >= 0

\* UTF-8 encoding of one code point (as a sequence of bytes)
Utf8(c) ==
  IF c < 128 THEN <<c>>
  ELSE IF c < 2048 THEN <<192 + (c \div 64), 128 + (c % 64)>>
  ELSE IF c < 65536 THEN <<224 + (c \div 4096), 128 + ((c \div 64) % 64), 128 + (c % 64)>>
  ELSE <<240 + (c \div 262144), 128 + ((c \div 4096) % 64), 128 + ((c \div 64) % 64), 128 + (c % 64)>>

\* characters RFC 3986 allows literally in a fragment:  pchar / "/" / "?"
\*   unreserved = ALPHA DIGIT - . _ ~     sub-delims = ! $ & ' ( ) * + , ; =     plus : @ / ?
FragmentSafe(c) ==
  \/ (c >= 48 /\ c <= 57) \/ (c >= 65 /\ c <= 90) \/ (c >= 97 /\ c <= 122)
  \/ c \in {45, 46, 95, 126, 33, 36, 38, 39, 40, 41, 42, 43, 44, 59, 61, 58, 64, 47, 63}

PctByte(b) == <<37, HexDigit(b \div 16), HexDigit(b % 16)>>
PctEncodeChar(c) == IF FragmentSafe(c) THEN <<c>>
                    ELSE LET bs == Utf8(c) IN FlattenSeq([k \in DOMAIN bs |-> PctByte(bs[k])])

----------------------------------------------------------------------------
(* pointer -> fragment *)

\* RFC 6901 section 3: "~" -> "~0", "/" -> "~1"
EscapeToken(tok) == FlattenSeq([k \in DOMAIN tok |->
                       IF tok[k] = 126 THEN <<126, 48>> ELSE IF tok[k] = 47 THEN <<126, 49>> ELSE <<tok[k]>>])

TokenOf(el) == IF IsKeyEl(el) THEN el.s ELSE DecText(el.i)

\* the JSON Pointer string of a path
PointerOf(path) == FlattenSeq([k \in DOMAIN path |-> <<47>> \o EscapeToken(TokenOf(path[k]))])

\* the URI fragment (without "#") of a path: RFC 6901 section 6
FragmentOf(path) == LET p == PointerOf(path) IN FlattenSeq([k \in DOMAIN p |-> PctEncodeChar(p[k])])

----------------------------------------------------------------------------
(* fragment -> pointer -> value *)

\* percent-decoding of a fragment into code points.  Well-formed input only: every "%" is followed by two
\* hex digits and the decoded bytes form valid UTF-8; otherwise the result is <<-1>> (not in the domain).
RECURSIVE DecodeFrom(_, _)
DecodeFrom(f, i) ==
  IF i > Len(f) THEN <<>>
  ELSE IF f[i] # 37 THEN <<f[i]>> \o DecodeFrom(f, i + 1)
  ELSE LET B(k) == IF k + 2 <= Len(f) /\ f[k] = 37 /\ IsHex(f[k + 1]) /\ IsHex(f[k + 2])
                   THEN 16 * HexVal(f[k + 1]) + HexVal(f[k + 2]) ELSE -1
           b1 == B(i)
       IN  IF b1 < 0 THEN <<-1>>
           ELSE IF b1 < 128 THEN <<b1>> \o DecodeFrom(f, i + 3)
           ELSE IF b1 >= 194 /\ b1 < 224
                THEN LET b2 == B(i + 3) IN
                     IF b2 < 128 \/ b2 >= 192 THEN <<-1>>
                     ELSE <<(b1 - 192) * 64 + (b2 - 128)>> \o DecodeFrom(f, i + 6)
           ELSE IF b1 >= 224 /\ b1 < 240
                THEN LET b2 == B(i + 3)  b3 == B(i + 6) IN
                     IF b2 < 128 \/ b2 >= 192 \/ b3 < 128 \/ b3 >= 192 THEN <<-1>>
                     ELSE <<(b1 - 224) * 4096 + (b2 - 128) * 64 + (b3 - 128)>> \o DecodeFrom(f, i + 9)
           ELSE IF b1 >= 240 /\ b1 < 245
                THEN LET b2 == B(i + 3)  b3 == B(i + 6)  b4 == B(i + 9) IN
                     IF b2 < 128 \/ b2 >= 192 \/ b3 < 128 \/ b3 >= 192 \/ b4 < 128 \/ b4 >= 192 THEN <<-1>>
                     ELSE <<(b1 - 240) * 262144 + (b2 - 128) * 4096 + (b3 - 128) * 64 + (b4 - 128)>>
                            \o DecodeFrom(f, i + 12)
           ELSE <<-1>>
PctDecode(f) == DecodeFrom(f, 1)
DecodedOK(p) == \A k \in DOMAIN p : p[k] >= 0

\* split a pointer string (after the leading "/") on "/"
RECURSIVE SplitSlash(_, _, _)
SplitSlash(p, i, cur) ==
  IF i > Len(p) THEN <<cur>>
  ELSE IF p[i] = 47 THEN <<cur>> \o SplitSlash(p, i + 1, <<>>)
  ELSE SplitSlash(p, i + 1, Append(cur, p[i]))

\* "~1" -> "/", then "~0" -> "~"   (in this order: "~01" is "~1", not "/")
RECURSIVE UnescapeFrom(_, _)
UnescapeFrom(t, i) ==
  IF i > Len(t) THEN <<>>
  ELSE IF t[i] = 126 /\ i < Len(t) /\ t[i + 1] = 49 THEN <<47>> \o UnescapeFrom(t, i + 2)
  ELSE IF t[i] = 126 /\ i < Len(t) /\ t[i + 1] = 48 THEN <<126>> \o UnescapeFrom(t, i + 2)
  ELSE <<t[i]>> \o UnescapeFrom(t, i + 1)
Unescape(t) == UnescapeFrom(t, 1)

\* a pointer string is "" or starts with "/": the reference tokens, unescaped
PointerSyntaxOK(p) == p = <<>> \/ p[1] = 47
Tokens(p) == IF p = <<>> THEN <<>>
             ELSE LET raw == SplitSlash(p, 2, <<>>) IN [k \in DOMAIN raw |-> Unescape(raw[k])]

\* RFC 6901 section 4: an array index is "0" or a non-zero digit followed by digits (ASCII)
IsIndexToken(t) == /\ t # <<>>
                   /\ \A k \in DOMAIN t : t[k] >= 48 /\ t[k] <= 57
                   /\ (Len(t) = 1 \/ t[1] # 48)
                   /\ Len(t) <= 9
RECURSIVE IndexVal(_)
IndexVal(t) == IF t = <<>> THEN 0 ELSE 10 * IndexVal(SubSeq(t, 1, Len(t) - 1)) + (t[Len(t)] - 48)

Fail == [ok |-> FALSE]
Ok(v) == [ok |-> TRUE, v |-> v]

\* evaluation of reference tokens against a value
RECURSIVE EvalTokens(_, _, _)
EvalTokens(doc, toks, k) ==
  IF k > Len(toks) THEN Ok(doc)
  ELSE LET t == toks[k] IN
       IF IsObj(doc) THEN (IF HasKey(doc, t) THEN EvalTokens(Get(doc, t), toks, k + 1) ELSE Fail)
       ELSE IF IsArr(doc)
            THEN (IF IsIndexToken(t) /\ IndexVal(t) < Len(doc.e)
                  THEN EvalTokens(doc.e[IndexVal(t) + 1], toks, k + 1) ELSE Fail)
       ELSE Fail

\* resolve a URI fragment (without "#") that is a JSON Pointer against a document:
\* [ok |-> TRUE, v |-> value], [ok |-> FALSE] (addresses nothing), or "dom" FALSE when the fragment is not a
\* well-formed percent-encoded JSON Pointer (outside what RFC 6901 defines)
ResolveFragment(doc, frag) ==
  LET p == PctDecode(frag) IN
  IF ~DecodedOK(p) \/ ~PointerSyntaxOK(p) THEN [ok |-> FALSE, dom |-> FALSE]
  ELSE LET r == EvalTokens(doc, Tokens(p), 1) IN
       IF r.ok THEN [ok |-> TRUE, v |-> r.v, dom |-> TRUE] ELSE [ok |-> FALSE, dom |-> TRUE]

\* following a path (not a pointer string) from a value
RECURSIVE At(_, _, _)
At(doc, path, k) ==
  IF k > Len(path) THEN Ok(doc)
  ELSE LET el == path[k] IN
       IF IsKeyEl(el) THEN (IF IsObj(doc) /\ HasKey(doc, el.s) THEN At(Get(doc, el.s), path, k + 1) ELSE Fail)
       ELSE (IF IsArr(doc) /\ el.i >= 0 /\ el.i < Len(doc.e) THEN At(doc.e[el.i + 1], path, k + 1) ELSE Fail)

\* all locations (paths) of a document, as a set
RECURSIVE Locations(_)
Locations(doc) ==
  {<<>>} \cup
  (IF IsObj(doc) THEN UNION { { <<PS(doc.k[k])>> \o q : q \in Locations(doc.v[k]) } : k \in DOMAIN doc.k }
   ELSE IF IsArr(doc) THEN UNION { { <<PI(k - 1)>> \o q : q \in Locations(doc.e[k]) } : k \in DOMAIN doc.e }
   ELSE {})
=============================================================================
