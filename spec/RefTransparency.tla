--------------------------- MODULE RefTransparency ---------------------------
(***************************************************************************)
(* C02: a reference behaves as the schema it designates.                   *)
(*   SubschemaPaths(d, S)  the positions at which S holds a subschema      *)
(*   SetAt(S, pos, new)    S with the value at pos replaced                *)
(*   Inline(d, env, S, f)  S with every reference object replaced by the   *)
(*                         (recursively inlined) schema it designates --   *)
(*                         defined for references without cycles           *)
(*   Loc(es)               errors projected to (keyword, instance path)    *)
(* Transparency: for every instance, Loc(E(S)) = Loc(E(Inline(S))) as bags.*)
(***************************************************************************)
EXTENDS Locate

MapSchemaKws  == {K_properties, K_patternProperties, K_dependencies, K_definitions}
SeqSchemaKws  == {K_allOf, K_anyOf, K_oneOf, K_items, K_extends, K_type, K_disallow}
OneSchemaKws  == {K_items, K_extends, K_additionalItems, K_additionalProperties, K_not, K_contains,
                  K_propertyNames, K_if, K_then, K_else}
IsSchemaVal(d, v) == IsObj(v) \/ (d >= 6 /\ IsBool(v))

\* positions (paths) of the subschemas of schema S, S itself included
RECURSIVE SubschemaPaths(_, _)
SubschemaPaths(d, S) ==
  {<<>>} \cup
  (IF ~IsObj(S) \/ IsRefObj(S) THEN {}
   ELSE UNION { LET kw == S.k[i]  v == S.v[i] IN
       (IF kw \in MapSchemaKws /\ IsObj(v)
        THEN UNION { IF IsSchemaVal(d, v.v[j])
                     THEN { <<PS(kw), PS(v.k[j])>> \o q : q \in SubschemaPaths(d, v.v[j]) } ELSE {} : j \in DOMAIN v.k }
        ELSE {})
       \cup (IF kw \in SeqSchemaKws /\ IsArr(v)
             THEN UNION { IF IsSchemaVal(d, v.e[j]) /\ ~(kw \in {K_type, K_disallow} /\ ~IsObj(v.e[j]))
                          THEN { <<PS(kw), PI(j - 1)>> \o q : q \in SubschemaPaths(d, v.e[j]) } ELSE {} : j \in DOMAIN v.e }
             ELSE {})
       \cup (IF kw \in OneSchemaKws /\ IsSchemaVal(d, v) /\ ~IsArr(v)
             THEN { <<PS(kw)>> \o q : q \in SubschemaPaths(d, v) } ELSE {})
     : i \in DOMAIN S.k })

RECURSIVE SetAt(_, _, _, _)
SetAt(S, pos, k, new) ==
  IF k > Len(pos) THEN new
  ELSE LET el == pos[k] IN
       IF IsKeyEl(el)
       THEN JObj(S.k, [i \in DOMAIN S.k |-> IF S.k[i] = el.s THEN SetAt(S.v[i], pos, k + 1, new) ELSE S.v[i]])
       ELSE JArr([i \in DOMAIN S.e |-> IF i = el.i + 1 THEN SetAt(S.e[i], pos, k + 1, new) ELSE S.e[i]])

\* S with every reference replaced by what it designates.  [ok, v]; ok = FALSE when a reference does not resolve
\* or the fuel runs out (cyclic references have no finite inlining).
RECURSIVE Inline(_, _, _, _)
\* Truncated inlining for RECURSIVE references (no finite inlining exists): unfold references to depth f and write {} for
\* what lies deeper.  On instances shallower than the unfolding depth the truncated schema behaves as the recursive one.
RECURSIVE InlineTrunc(_, _, _, _)
InlineTruncVal(d, env, kw, v, f) ==
  IF kw \in MapSchemaKws /\ IsObj(v)
  THEN JObj(v.k, [j \in DOMAIN v.k |-> IF IsSchemaVal(d, v.v[j]) THEN InlineTrunc(d, env, v.v[j], f) ELSE v.v[j]])
  ELSE IF kw \in SeqSchemaKws /\ IsArr(v)
  THEN JArr([j \in DOMAIN v.e |-> IF IsObj(v.e[j]) THEN InlineTrunc(d, env, v.e[j], f) ELSE v.e[j]])
  ELSE IF kw \in OneSchemaKws /\ IsObj(v) THEN InlineTrunc(d, env, v, f)
  ELSE v
InlineTrunc(d, env, S, f) ==
  IF ~IsObj(S) THEN S
  ELSE LET env2 == WithId(d, env, S) IN
       IF IsRefObj(S)
       THEN LET t == Target(env2, Get(S, K_d_ref).s) IN
            IF f = 0 \/ ~t.dom \/ ~t.ok THEN EmptyObj
            ELSE InlineTrunc(d, [env2 EXCEPT !.base = t.base], t.node, f - 1)
       ELSE JObj(S.k, [i \in DOMAIN S.k |-> InlineTruncVal(d, env2, S.k[i], S.v[i], f)])

InlineVal(d, env, kw, v, f) ==
  IF kw \in MapSchemaKws /\ IsObj(v)
  THEN LET rs == [j \in DOMAIN v.k |-> IF IsSchemaVal(d, v.v[j]) THEN Inline(d, env, v.v[j], f) ELSE [ok |-> TRUE, v |-> v.v[j]]] IN
       [ok |-> \A j \in DOMAIN rs : rs[j].ok, v |-> JObj(v.k, [j \in DOMAIN rs |-> IF rs[j].ok THEN rs[j].v ELSE JNull])]
  ELSE IF kw \in SeqSchemaKws /\ IsArr(v)
  THEN LET rs == [j \in DOMAIN v.e |-> IF IsObj(v.e[j]) THEN Inline(d, env, v.e[j], f) ELSE [ok |-> TRUE, v |-> v.e[j]]] IN
       [ok |-> \A j \in DOMAIN rs : rs[j].ok, v |-> JArr([j \in DOMAIN rs |-> IF rs[j].ok THEN rs[j].v ELSE JNull])]
  ELSE IF kw \in OneSchemaKws /\ IsObj(v) THEN Inline(d, env, v, f)
  ELSE [ok |-> TRUE, v |-> v]
Inline(d, env, S, f) ==
  IF ~IsObj(S) THEN [ok |-> TRUE, v |-> S]
  ELSE LET env2 == WithId(d, env, S) IN
       IF IsRefObj(S)
       THEN LET t == Target(env2, Get(S, K_d_ref).s) IN
            IF f = 0 \/ ~t.dom \/ ~t.ok THEN [ok |-> FALSE, v |-> JNull]
            ELSE Inline(d, [env2 EXCEPT !.base = t.base], t.node, f - 1)
       ELSE LET rs == [i \in DOMAIN S.k |-> InlineVal(d, env2, S.k[i], S.v[i], f)] IN
            [ok |-> \A i \in DOMAIN rs : rs[i].ok, v |-> JObj(S.k, [i \in DOMAIN rs |-> IF rs[i].ok THEN rs[i].v ELSE JNull])]

\* errors projected to what C02 speaks about: (keyword, instance path), recursively for contexts
RECURSIVE LocEq(_, _)
RECURSIVE LocBag(_, _)
LocEq(a, b) == a.kw = b.kw /\ a.ip = b.ip /\ LocBag(a.ctx, b.ctx)
LocBag(x, y) == /\ Len(x) = Len(y)
                /\ \A i \in DOMAIN x : Cardinality({ j \in DOMAIN x : LocEq(x[j], x[i]) })
                                       = Cardinality({ j \in DOMAIN y : LocEq(y[j], x[i]) })
=============================================================================
