-------------------------------- MODULE Regex --------------------------------
(***************************************************************************)
(* Regular expressions: the subset on which Python `re.search` and ECMA    *)
(* 262 agree (C01's domain).  A schema carries the pattern TEXT; meaning   *)
(* is given to an AST.  Render(ast) is the canonical text of an AST, so a  *)
(* (text, ast) pair supplied by the harness is trusted only when           *)
(* Render(ast) = text -- a wrong parse is detected, not believed.          *)
(*                                                                         *)
(*   [r |-> "lit", c |-> code point]                                       *)
(*   [r |-> "any"]                       .   (any character but a line     *)
(*                                            terminator)                  *)
(*   [r |-> "cls", neg |-> B, rs |-> <<<<lo,hi>>,...>>]   [a-z0-9] [^...]  *)
(*   [r |-> "bol"]  [r |-> "eol"]        ^  $                              *)
(*   [r |-> "cat", a |-> <<ast,...>>]    concatenation (<<>> = empty)      *)
(*   [r |-> "alt", a |-> <<ast,...>>]    a|b|c                             *)
(*   [r |-> "star"|"plus"|"opt", x |-> ast]                                *)
(*   [r |-> "rep", x |-> ast, m |-> Nat, n |-> Nat or -1]   {m} {m,} {m,n} *)
(*   [r |-> "grp", x |-> ast, cap |-> B]  ( ) and (?: )                    *)
(*                                                                         *)
(* Strings are sequences of code points; positions are 1..Len(s)+1.        *)
(***************************************************************************)
EXTENDS Integers, Sequences, FiniteSets, SequencesExt

LineTerminators == {10, 13, 8232, 8233}

\* the string is one on which `.` and `$` mean the same in both dialects
NoLineTerminator(s) == \A i \in DOMAIN s : s[i] \notin LineTerminators

InRanges(c, rs) == \E i \in DOMAIN rs : rs[i][1] <= c /\ c <= rs[i][2]

RECURSIVE MatchEnds(_, _, _)
RECURSIVE Closure(_, _, _)
RECURSIVE CatEnds(_, _, _, _)
RECURSIVE RepEnds(_, _, _, _)

\* the set of positions j such that `ast` matches s[i .. j-1]
MatchEnds(ast, s, i) ==
  CASE ast.r = "lit"  -> IF i <= Len(s) /\ s[i] = ast.c THEN {i + 1} ELSE {}
    [] ast.r = "any"  -> IF i <= Len(s) /\ s[i] \notin LineTerminators THEN {i + 1} ELSE {}
    [] ast.r = "cls"  -> IF i <= Len(s) /\ (InRanges(s[i], ast.rs) # ast.neg) THEN {i + 1} ELSE {}
    [] ast.r = "bol"  -> IF i = 1 THEN {i} ELSE {}
    [] ast.r = "eol"  -> IF i = Len(s) + 1 THEN {i} ELSE {}
    [] ast.r = "cat"  -> CatEnds(ast.a, 1, s, {i})
    [] ast.r = "alt"  -> UNION { MatchEnds(ast.a[k], s, i) : k \in DOMAIN ast.a }
    [] ast.r = "star" -> Closure(ast.x, s, {i})
    [] ast.r = "plus" -> Closure(ast.x, s, MatchEnds(ast.x, s, i))
    [] ast.r = "opt"  -> {i} \cup MatchEnds(ast.x, s, i)
    [] ast.r = "rep"  -> LET must == RepEnds(ast.x, s, {i}, ast.m) IN
                           IF ast.n = -1 THEN Closure(ast.x, s, must)
                           ELSE UNION { RepEnds(ast.x, s, must, k) : k \in 0 .. (ast.n - ast.m) }
    [] ast.r = "grp"  -> MatchEnds(ast.x, s, i)

\* positions reachable from the set S by zero or more repetitions of x (least fixpoint)
Closure(x, s, S) ==
  LET T == S \cup UNION { MatchEnds(x, s, e) : e \in S } IN
  IF T = S THEN S ELSE Closure(x, s, T)

\* positions reachable from S by matching parts k.. of the concatenation in turn
CatEnds(parts, k, s, S) ==
  IF k > Len(parts) \/ S = {} THEN S
  ELSE CatEnds(parts, k + 1, s, UNION { MatchEnds(parts[k], s, e) : e \in S })

\* positions reachable from S by exactly n repetitions of x
RepEnds(x, s, S, n) ==
  IF n = 0 \/ S = {} THEN S ELSE RepEnds(x, s, UNION { MatchEnds(x, s, e) : e \in S }, n - 1)

\* JSON Schema patterns are not anchored: the pattern matches somewhere in s
Search(ast, s) == \E i \in 1 .. (Len(s) + 1) : MatchEnds(ast, s, i) # {}

----------------------------------------------------------------------------
(* Rendering: the canonical pattern text of an AST.                        *)

Special      == {92, 94, 36, 46, 124, 63, 42, 43, 40, 41, 91, 93, 123, 125}   \* \ ^ $ . | ? * + ( ) [ ] { }
ClassSpecial == {92, 93, 94, 45}                                                \* \ ] ^ -

RECURSIVE Dec(_)
Dec(n) == IF n < 10 THEN <<48 + n>> ELSE Dec(n \div 10) \o <<48 + (n % 10)>>

LitText(c)   == IF c \in Special THEN <<92, c>> ELSE <<c>>
ClsChar(c)   == IF c \in ClassSpecial THEN <<92, c>> ELSE <<c>>
RangeText(p) == IF p[1] = p[2] THEN ClsChar(p[1]) ELSE ClsChar(p[1]) \o <<45>> \o ClsChar(p[2])

RECURSIVE Render(_)
Render(ast) ==
  CASE ast.r = "lit"  -> LitText(ast.c)
    [] ast.r = "any"  -> <<46>>
    [] ast.r = "cls"  -> <<91>> \o (IF ast.neg THEN <<94>> ELSE <<>>)
                            \o FlattenSeq([k \in DOMAIN ast.rs |-> RangeText(ast.rs[k])]) \o <<93>>
    [] ast.r = "bol"  -> <<94>>
    [] ast.r = "eol"  -> <<36>>
    [] ast.r = "cat"  -> FlattenSeq([k \in DOMAIN ast.a |-> Render(ast.a[k])])
    [] ast.r = "alt"  -> FlattenSeq([k \in DOMAIN ast.a |->
                            (IF k = 1 THEN <<>> ELSE <<124>>) \o Render(ast.a[k])])
    [] ast.r = "star" -> Render(ast.x) \o <<42>>
    [] ast.r = "plus" -> Render(ast.x) \o <<43>>
    [] ast.r = "opt"  -> Render(ast.x) \o <<63>>
    [] ast.r = "rep"  -> Render(ast.x) \o <<123>> \o Dec(ast.m)
                            \o (IF ast.n = ast.m THEN <<>>
                                ELSE IF ast.n = -1 THEN <<44>> ELSE <<44>> \o Dec(ast.n)) \o <<125>>
    [] ast.r = "grp"  -> <<40>> \o (IF ast.cap THEN <<>> ELSE <<63, 58>>) \o Render(ast.x) \o <<41>>

\* well-formedness of an AST as a rendering of unambiguous text: quantifiers apply to atoms only, an
\* alternation inside a concatenation or under a quantifier is parenthesised, classes are non-empty and
\* ordered, a concatenation does not directly contain a concatenation, bounds are ordered
IsAtom(ast) == ast.r \in {"lit", "any", "cls", "grp"}
RECURSIVE WellFormed(_)
WellFormed(ast) ==
  CASE ast.r \in {"lit", "any", "bol", "eol"} -> TRUE
    [] ast.r = "cls"  -> ast.rs # <<>> /\ \A k \in DOMAIN ast.rs : ast.rs[k][1] <= ast.rs[k][2]
    [] ast.r = "cat"  -> \A k \in DOMAIN ast.a : ast.a[k].r \notin {"cat", "alt"} /\ WellFormed(ast.a[k])
    [] ast.r = "alt"  -> Len(ast.a) >= 2 /\ \A k \in DOMAIN ast.a : ast.a[k].r # "alt" /\ WellFormed(ast.a[k])
    [] ast.r \in {"star", "plus", "opt"} -> IsAtom(ast.x) /\ WellFormed(ast.x)
    [] ast.r = "rep"  -> IsAtom(ast.x) /\ WellFormed(ast.x) /\ ast.m >= 0 /\ (ast.n = -1 \/ ast.n >= ast.m)
    [] ast.r = "grp"  -> WellFormed(ast.x)
=============================================================================
