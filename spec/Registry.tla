------------------------------ MODULE Registry ------------------------------
(***************************************************************************)
(* Type checkers, format checkers, validator classes, validator objects    *)
(* and the two global registries, as VALUES, with the derivation           *)
(* operations as actions (C16, C20).                                       *)
(*                                                                         *)
(*  type checker   tcs[t]  : function  type name -> predicate id           *)
(*  class          cls[c]  : [kw : set of feature tags, tc : t,            *)
(*                            idkw : "id" | "$id", meta : metaschema id,   *)
(*                            vt : the draft whose keyword table it has]   *)
(*  validator obj  vals[v] : [c : class, tc : t, known : set of metaschema *)
(*                            ids]  (tc: instance level, the deprecated    *)
(*                            `types` argument; known: the registered      *)
(*                            metaschema ids its resolver's store received *)
(*                            when the object was constructed)             *)
(*  format checker fcs[f]  : function  format name -> function id          *)
(*  clsFormats             : the class-wide format registry                *)
(*  byName, byId           : version name -> class, metaschema id -> class *)
(*                                                                         *)
(* Every operation either creates new objects or (Checks, ClsChecks)       *)
(* changes exactly one registry in place.  Beh(o) is the table of probe    *)
(* results of an object; the property says it never changes for an object  *)
(* that an operation does not name.                                        *)
(***************************************************************************)
EXTENDS Integers, Sequences, FiniteSets, TLC

VARIABLES tcs, cls, vals, fcs, clsFormats, byName, byId, hist
rvars == <<tcs, cls, vals, fcs, clsFormats, byName, byId, hist>>

\* ---- predicates and probe instances -------------------------------------------------------------------
ProbeInsts == {"null", "true", "one", "onef", "str", "arr", "obj"}      \* null, true, 1, 1.0, "s", [], {}
\* standard predicates of the drafts and custom ones used by redefine / types=
Pred(pid, x) ==
  CASE pid = "null"    -> x = "null"
    [] pid = "boolean" -> x = "true"
    [] pid = "int34"   -> x = "one"                   \* drafts 3/4: integers held as integers
    [] pid = "int67"   -> x \in {"one", "onef"}       \* drafts 6/7: integer-valued floats too
    [] pid = "number"  -> x \in {"one", "onef"}
    [] pid = "string"  -> x = "str"
    [] pid = "array"   -> x = "arr"
    [] pid = "object"  -> x = "obj"
    [] pid = "any"     -> TRUE
    [] pid = "strint"  -> x \in {"str", "one"}        \* custom: strings and integers
    [] pid = "never"   -> FALSE                       \* custom
    [] pid = "pystr"   -> x = "str"                   \* types={name: str}
StdTc(d) == [n \in {"null", "boolean", "integer", "number", "string", "array", "object"} \cup (IF d = 3 THEN {"any"} ELSE {}) |->
               IF n = "integer" THEN (IF d <= 4 THEN "int34" ELSE "int67") ELSE n]

NewMetaId == "http://new-meta.invalid/schema"      \* the one fresh metaschema id Create may register (MC_C16)

\* ---- behaviour tables ---------------------------------------------------------------------------------
TypeNamesProbed == {"integer", "string", "newtype", "any"}
TcBeh(tc) == [n \in TypeNamesProbed |-> IF n \in DOMAIN tc THEN [x \in ProbeInsts |-> Pred(tc[n], x)] ELSE "undefined"]
\* a class / validator object: its type behaviour plus keyword features and the id keyword it honours
\* check_schema is the class applied to its own metaschema: the class's own type checker and keyword functions decide.
\*   {"title": 1}       is accepted exactly when the class's "string" accepts 1 ("undefined": the check raises UnknownType)
\*   {"minLength": -1}  is accepted exactly when the class's "integer" accepts -1 and its `minimum` has been overridden
\*                      by the never-failing one ("skip": no "integer" at all -- which of the two complaints comes
\*                      first depends on the member order of the metaschema, not claimed)
CheckSchemaBeh(c, tc) ==
  [title  |-> IF "string" \notin DOMAIN tc THEN "undefined" ELSE IF Pred(tc["string"], "one") THEN "accept" ELSE "reject",
   minlen |-> IF "integer" \notin DOMAIN tc THEN "skip"
              ELSE IF Pred(tc["integer"], "one") /\ "override-minimum" \in c.kw THEN "accept" ELSE "reject"]
\* which draft's keyword table the class carries (c.vt \in {3, 4, 6, 7}; inherited by extend and create): Draft 3's
\* table honours divisibleBy, Drafts 6/7 honour const
ClassBeh(c, tc) == [types |-> TcBeh(tc), kw |-> c.kw, idkw |-> c.idkw, cs |-> CheckSchemaBeh(c, tc),
                    flavour |-> [divisibleBy |-> c.vt = 3, const |-> c.vt >= 6]]
FcBeh(f) == f                                     \* format name -> function id (unknown names pass)

Beh == [tc |-> [t \in DOMAIN tcs |-> TcBeh(tcs[t])],
        cls |-> [c \in DOMAIN cls |-> ClassBeh(cls[c], tcs[cls[c].tc])],
        \* a validator object resolves a reference to a registered metaschema id exactly when the id was registered
        \* BEFORE the object was constructed (its store is seeded then; later registrations do not reach it)
        val |-> [v \in DOMAIN vals |-> [ClassBeh(cls[vals[v].c], tcs[vals[v].tc]) EXCEPT !.cs = "n/a"]
                                       @@ [knows |-> NewMetaId \in vals[v].known]],
        fc |-> [f \in DOMAIN fcs |-> FcBeh(fcs[f])]]

\* ---- operations ---------------------------------------------------------------------------------------
New(f) == Len(f) + 1
\* (last conjunct of every action: the primed format registries are determined by then)
Log(op) == hist' = Append(hist, [o |-> op, fcs |-> fcs', cf |-> clsFormats'])

Redefine(t, name, pid) ==
  /\ tcs' = Append(tcs, [x \in DOMAIN tcs[t] \cup {name} |-> IF x = name THEN pid ELSE tcs[t][x]])
  /\ UNCHANGED <<cls, vals, fcs, clsFormats, byName, byId>>
  /\ Log([op |-> "redefine", t |-> t, name |-> name, pid |-> pid, new |-> New(tcs)])
Remove(t, name) ==
  /\ name \in DOMAIN tcs[t]
  /\ tcs' = Append(tcs, [x \in DOMAIN tcs[t] \ {name} |-> tcs[t][x]])
  /\ UNCHANGED <<cls, vals, fcs, clsFormats, byName, byId>>
  /\ Log([op |-> "remove", t |-> t, name |-> name, new |-> New(tcs)])
\* extend(c, overrides, type_checker): feature tags added to the keyword set: "override-minimum" (minimum never fails),
\* "add-xnew" (a new keyword)
Extend(c, feats, t) ==
  /\ cls' = Append(cls, [cls[c] EXCEPT !.kw = @ \cup feats, !.tc = IF t = 0 THEN cls[c].tc ELSE t])
  /\ UNCHANGED <<tcs, vals, fcs, clsFormats, byName, byId>>
  /\ Log([op |-> "extend", c |-> c, feats |-> feats, t |-> t, new |-> New(cls)])
\* create(meta_schema, validators, version, type_checker) from the tables of class c, registered under a fresh id
Create(c, version, metaid) ==
  /\ cls' = Append(cls, [cls[c] EXCEPT !.meta = metaid, !.idkw = "$id"])     \* create() defaults to $id
  /\ byName' = IF version = "" THEN byName ELSE [x \in DOMAIN byName \cup {version} |-> IF x = version THEN New(cls) ELSE byName[x]]
  /\ byId' = IF version = "" \/ metaid = "" THEN byId ELSE [x \in DOMAIN byId \cup {metaid} |-> IF x = metaid THEN New(cls) ELSE byId[x]]
  /\ UNCHANGED <<tcs, vals, fcs, clsFormats>>
  /\ Log([op |-> "create", c |-> c, version |-> version, metaid |-> metaid, new |-> New(cls)])
\* Validator(schema, types={name: str}) -- the instance gets a redefined checker, the class is untouched
NewValidator(c, withTypes) ==
  /\ IF withTypes
     THEN /\ tcs' = Append(tcs, [x \in DOMAIN tcs[cls[c].tc] \cup {"newtype"} |-> IF x = "newtype" THEN "pystr" ELSE tcs[cls[c].tc][x]])
          /\ vals' = Append(vals, [c |-> c, tc |-> New(tcs), known |-> DOMAIN byId])
     ELSE /\ tcs' = tcs /\ vals' = Append(vals, [c |-> c, tc |-> cls[c].tc, known |-> DOMAIN byId])
  /\ UNCHANGED <<cls, fcs, clsFormats, byName, byId>>
  /\ Log([op |-> "validator", c |-> c, types |-> withTypes, new |-> New(vals)])
Checks(f, name, fn) ==
  /\ fcs' = [fcs EXCEPT ![f] = [x \in DOMAIN fcs[f] \cup {name} |-> IF x = name THEN fn ELSE fcs[f][x]]]
  /\ UNCHANGED <<tcs, cls, vals, clsFormats, byName, byId>>
  /\ Log([op |-> "checks", f |-> f, name |-> name, fn |-> fn])
ClsChecks(name, fn) ==
  /\ clsFormats' = [x \in DOMAIN clsFormats \cup {name} |-> IF x = name THEN fn ELSE clsFormats[x]]
  /\ UNCHANGED <<tcs, cls, vals, fcs, byName, byId>>
  /\ Log([op |-> "cls_checks", name |-> name, fn |-> fn])
NewFormatChecker(subset) ==          \* subset = {} means: no `formats` argument
  /\ fcs' = Append(fcs, IF subset = {} THEN clsFormats ELSE [x \in subset \cap DOMAIN clsFormats |-> clsFormats[x]])
  /\ UNCHANGED <<tcs, cls, vals, clsFormats, byName, byId>>
  /\ Log([op |-> "format_checker", formats |-> subset, new |-> New(fcs)])

\* ---- draft selection (C20) ---------------------------------------------------------------------------
\* a $schema spelling: [id |-> registered-or-not id text, hash |-> trailing "#" or not]; "" = absent
Latest == 4                                        \* index of the Draft 7 class
ValidatorFor(sch, default) ==
  IF sch = "" THEN [c |-> default, warn |-> FALSE]
  ELSE IF sch \in DOMAIN byId THEN [c |-> byId[sch], warn |-> FALSE]
  ELSE [c |-> Latest, warn |-> TRUE]
=============================================================================
