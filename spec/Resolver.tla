------------------------------ MODULE Resolver ------------------------------
(***************************************************************************)
(* The retrieval / caching state machine of one RefResolver (C15).         *)
(*                                                                         *)
(* World (constants): RemoteDocs -- documents obtainable only through a    *)
(* handler; LocalDocs -- documents supplied in the store or bundled        *)
(* metaschemas (never retrieved).  Configuration: CacheRemote, CacheKind   *)
(* ("lru" default cache, "pass" a pass-through function, "tiny" a cache of *)
(* one entry that evicts); HMode: per remote document "ok" | "failonce" |  *)
(* "fail".  State: store (documents present), ucache (URLs whose           *)
(* resolution is cached), fetches (log of handler calls <<doc, ok>>),      *)
(* pending (documents whose next fetch still fails once).                  *)
(***************************************************************************)
EXTENDS ResolverFn

CONSTANTS RemoteDocs, LocalDocs, CacheRemote, CacheKind, HMode, NoPtr
VARIABLES store, ucache, fetches, pending

rvars == <<store, ucache, fetches, pending>>
Urls  == [doc : RemoteDocs \cup LocalDocs, frag : Frags]
Cfg   == [cr |-> CacheRemote, kind |-> CacheKind, hmode |-> HMode, noptr |-> NoPtr]
St    == [store |-> store, ucache |-> ucache, fetches |-> fetches, pending |-> pending]

RInit == /\ store = LocalDocs
         /\ ucache = {}
         /\ fetches = <<>>
         /\ pending = { d \in RemoteDocs : HMode[d] = "failonce" }

\* Resolve(u, res): the resolver is asked for URL u and answers res ("ok" | "referror")
Resolve(u, res) ==
  \E x \in Outcomes(Cfg, St, u) :
  /\ res = x.res
  /\ store' = x.st.store /\ ucache' = x.st.ucache /\ fetches' = x.st.fetches /\ pending' = x.st.pending

----------------------------------------------------------------------------
OkFetches(d) == { i \in DOMAIN fetches : fetches[i][1] = d /\ fetches[i][2] }
\* with caching on, each external document is fetched successfully at most once, and never again afterwards
FetchOnce == CacheRemote => \A d \in RemoteDocs :
               /\ Cardinality(OkFetches(d)) <= 1
               /\ \A i \in OkFetches(d), j \in DOMAIN fetches : (j > i) => fetches[j][1] # d
\* with caching off the store gains no entries
StoreStable == ~CacheRemote => store = LocalDocs
\* local documents (store, bundled metaschemas) are never retrieved
LocalNeverFetched == \A i \in DOMAIN fetches : fetches[i][1] \notin LocalDocs
\* the store only ever holds local documents and successfully fetched ones
StoreSound == store \subseteq LocalDocs \cup { d \in RemoteDocs : OkFetches(d) # {} }
=============================================================================
