------------------------------ MODULE ResolverFn ------------------------------
(***************************************************************************)
(* The retrieval / caching transition of one RefResolver as a function on  *)
(* explicit states (C15).  See Resolver.tla for the state machine.         *)
(*   st  = [store, ucache, fetches, pending]                               *)
(*   cfg = [cr (cache_remote), kind ("lru" | "pass" | "tiny"), hmode, noptr]*)
(*   u   = [doc, frag]  frag: "none" | "empty" (trailing #) | "ptr" (an    *)
(*         existing pointer) | "bad" (a pointer that addresses nothing)    *)
(***************************************************************************)
EXTENDS Integers, Sequences, FiniteSets

Frags == {"none", "empty", "ptr", "bad"}

\* what the caller gets when the document is available (cfg.noptr: documents in which the "ptr" pointer does not
\* exist either, e.g. an empty document)
Answer(cfg, u) == IF u.frag = "bad" \/ (u.frag = "ptr" /\ u.doc \in cfg.noptr) THEN "referror" ELSE "ok"

RememberF(cfg, uc, u) == CASE cfg.kind = "lru" -> uc \cup {u} [] cfg.kind = "pass" -> {} [] cfg.kind = "tiny" -> {u}

ResolveF(cfg, st, u) ==
  IF u \in st.ucache THEN [st |-> st, res |-> "ok"]                         \* URL cache hit: no other effect
  ELSE IF u.doc \in st.store                                                \* served from the store
       THEN [st |-> [st EXCEPT !.ucache = IF Answer(cfg, u) = "ok" THEN RememberF(cfg, @, u) ELSE @], res |-> Answer(cfg, u)]
  ELSE LET fails == cfg.hmode[u.doc] = "fail" \/ u.doc \in st.pending      \* retrieval through the handler
           st1 == [st EXCEPT !.fetches = Append(@, <<u.doc, ~fails>>), !.pending = @ \ {u.doc}]
       IN  IF fails THEN [st |-> st1, res |-> "referror"]                   \* nothing is cached on failure
           ELSE [st |-> [st1 EXCEPT !.store = IF cfg.cr THEN @ \cup {u.doc} ELSE @,
                                    !.ucache = IF Answer(cfg, u) = "ok" THEN RememberF(cfg, @, u) ELSE @],
                 res |-> Answer(cfg, u)]

(***************************************************************************)
(* Whether two spellings of one URL ("u" and "u#") share a URL-cache entry *)
(* is not something the property speaks about (it depends on how the join  *)
(* function normalises an empty fragment), so the model leaves it open: a  *)
(* resolution MAY also be answered from the cache entry of the equivalent  *)
(* spelling.  Outcomes = the set of possible [st, res].                    *)
(***************************************************************************)
EquivHit(st, u) == u \notin st.ucache /\ u.frag \in {"none", "empty"}
                   /\ \E v \in st.ucache : v.doc = u.doc /\ v.frag \in {"none", "empty"}
Outcomes(cfg, st, u) == {ResolveF(cfg, st, u)} \cup (IF EquivHit(st, u) THEN {[st |-> st, res |-> "ok"]} ELSE {})
=============================================================================
