------------------------------ MODULE Semantics ------------------------------
(***************************************************************************)
(* JSON Schema validation semantics for drafts 3, 4, 6 and 7, written from *)
(* the drafts (not from the Python), as a function                          *)
(*                                                                         *)
(*     E(d, env, S, I, f)                                                  *)
(*                                                                         *)
(* from a draft d \in {3,4,6,7}, an environment env (documents reachable   *)
(* through references, the base URI in effect, the regex table, the format *)
(* checker), a schema S and an instance I to a result                      *)
(*                                                                         *)
(*     [errs |-> sequence of located errors,                               *)
(*      exc  |-> set of documented exceptions the evaluation MAY raise     *)
(*               ("ref": RefResolutionError, "type": UnknownType),         *)
(*      ood  |-> set of reasons why the case is outside the domain the     *)
(*               specification judges (see DESIGN.md 4.5 rule 3)]          *)
(*                                                                         *)
(* Evaluation is eager (every subschema is evaluated); an implementation   *)
(* may stop early, which is why `exc` is a may-set.  The order of `errs`   *)
(* carries no meaning: collections of errors are compared as bags.         *)
(*                                                                         *)
(* An error is [kw, ip, sp, ctx, tag]:                                     *)
(*   kw  keyword name (code points), <<>> for the error of a `false` schema*)
(*   ip  instance path relative to I;  sp schema path relative to S        *)
(*       (elements [s |-> key] / [i |-> index])                            *)
(*   ctx errors of the subschemas of anyOf / oneOf / Draft 3 type, with    *)
(*       paths relative to this error                                      *)
(*   tag "" | "d3req" (Draft 3 required: path names the missing property,  *)
(*       recorded schema is the parent) | "pnames" (under propertyNames:   *)
(*       the instance is a property name) -- the documented exceptions of  *)
(*       C06.                                                              *)
(* Error model (docs/errors.rst and DESIGN.md Appendix B): one error per   *)
(* violated leaf assertion; applicators pass their children's errors       *)
(* through, prepending the child's instance/schema step; anyOf, oneOf and  *)
(* Draft 3 type collect the children's errors as context; required and     *)
(* array-form dependencies give one error per missing name.                *)
(***************************************************************************)
EXTENDS Numeric, Names, Regex, Pointer, Uri

FMAX == 8      \* reference hops allowed without consuming part of the instance (well-foundedness fuel)

----------------------------------------------------------------------------
(* results *)
R0          == [errs |-> <<>>, exc |-> {}, ood |-> {}]
RErrs(es)   == [errs |-> es, exc |-> {}, ood |-> {}]
RExc(x)     == [errs |-> <<>>, exc |-> {x}, ood |-> {}]
ROod(x)     == [errs |-> <<>>, exc |-> {}, ood |-> {x}]
Leaf(kw)    == [kw |-> kw, ip |-> <<>>, sp |-> <<>>, ctx |-> <<>>, tag |-> ""]
RLeaf(kw)   == RErrs(<<Leaf(kw)>>)
RLeafIf(c, kw) == IF c THEN RLeaf(kw) ELSE R0

\* union of a sequence of results
JoinAll(rs) == [errs |-> FlattenSeq([k \in DOMAIN rs |-> rs[k].errs]),
                exc  |-> UNION { rs[k].exc : k \in DOMAIN rs },
                ood  |-> UNION { rs[k].ood : k \in DOMAIN rs }]
Join2(a, b) == JoinAll(<<a, b>>)

\* prepend an instance step and schema steps to the (top-level) errors of a result
Pre(r, istep, ssteps) ==
  [r EXCEPT !.errs = [k \in DOMAIN r.errs |-> [r.errs[k] EXCEPT !.ip = istep \o @, !.sp = ssteps \o @]]]
Tagged(r, t) == [r EXCEPT !.errs = [k \in DOMAIN r.errs |-> [r.errs[k] EXCEPT !.tag = t]]]
\* keep only what may be raised / is out of domain (the errors of a subschema evaluated for its verdict only)
Side(r) == [errs |-> <<>>, exc |-> r.exc, ood |-> r.ood]
IsValidR(r) == r.errs = <<>>

----------------------------------------------------------------------------
(* helpers *)

\* Python truthiness of a JSON value (used where a draft says "boolean" and the metaschema enforces it)
Truthy(x) == CASE IsNull(x) -> FALSE [] IsBool(x) -> x.b [] IsNum(x) -> ~IsZero(x)
               [] IsStr(x) -> x.s # <<>> [] IsArr(x) -> x.e # <<>> [] IsObj(x) -> x.k # <<>>

\* a natural number as a JSON number
RECURSIVE NatBits(_, _)
NatBits(n, e) == IF n = 0 THEN <<>> ELSE NatBits(n \div 2, e + 1) \o (IF n % 2 = 1 THEN <<e>> ELSE <<>>)
NatNum(n) == JInt(NatBits(n, 0))

IdKw(d) == IF d <= 4 THEN K_id ELSE K_d_id

Keywords(d) ==
  {K_d_ref, K_type, K_enum, K_minimum, K_maximum, K_minLength, K_maxLength, K_pattern, K_minItems, K_maxItems,
   K_uniqueItems, K_items, K_additionalItems, K_properties, K_patternProperties, K_additionalProperties,
   K_dependencies, K_format}
  \cup (IF d = 3 THEN {K_disallow, K_extends, K_divisibleBy} ELSE {})
  \cup (IF d >= 4 THEN {K_multipleOf, K_minProperties, K_maxProperties, K_required, K_allOf, K_anyOf, K_oneOf, K_not}
        ELSE {})
  \cup (IF d >= 6 THEN {K_const, K_contains, K_propertyNames, K_exclusiveMinimum, K_exclusiveMaximum} ELSE {})
  \cup (IF d = 7 THEN {K_if} ELSE {})

\* sibling keywords each keyword is defined to consult (C05 / C10)
Consults(d, k) ==
  CASE k = K_additionalProperties -> {K_properties, K_patternProperties}
    [] k = K_additionalItems      -> {K_items}
    [] k = K_if /\ d = 7          -> {K_then, K_else}
    [] k = K_minimum /\ d <= 4    -> {K_exclusiveMinimum}
    [] k = K_maximum /\ d <= 4    -> {K_exclusiveMaximum}
    [] OTHER                      -> {}

\* regex table lookup: env.pats is a sequence of [text, ast]
HasAst(env, text) == \E k \in DOMAIN env.pats : env.pats[k].text = text
AstOf(env, text)  == env.pats[CHOOSE k \in DOMAIN env.pats : env.pats[k].text = text].ast
\* the (text, ast) pairs offered by the harness are believed only if the AST renders to the text
PatsOK(env) == \A k \in DOMAIN env.pats : WellFormed(env.pats[k].ast) /\ Render(env.pats[k].ast) = env.pats[k].text

\* does pattern text p match string s?  ood when the pattern is outside the regex subset
\*   result: "yes" | "no" | "ood"
PatMatch(env, p, s) ==
  IF ~HasAst(env, p) \/ ~NoLineTerminator(s) THEN "ood"
  ELSE IF Search(AstOf(env, p), s) THEN "yes" ELSE "no"

----------------------------------------------------------------------------
(* references: the document designated by a reference string, RFC 3986 + RFC 6901 *)

\* env.docs : sequence of [u |-> absolute URI without fragment (text), doc |-> value]; env.base : text
\* the root document comes first: when the store also holds a document under the root's own URI, the referring document wins
DocIndex(env, u) == LET M == { k \in DOMAIN env.docs : SameDoc(env.docs[k].u, u) } IN
                    IF M = {} THEN 0 ELSE CHOOSE k \in M : \A j \in M : k <= j

\* [ok, node, base] -- the value a reference designates and the base URI in effect inside it
Target(env, ref) ==
  LET full == ResolveText(env.base, ref)            \* urljoin(base, ref), as text
      parts == Defrag(full)                         \* <<document part, fragment>>
      di == DocIndex(env, parts[1])
  IN  IF di = 0 THEN [ok |-> FALSE, dom |-> TRUE]
      ELSE LET r == ResolveFragment(env.docs[di].doc, parts[2]) IN
           IF ~r.dom THEN [ok |-> FALSE, dom |-> FALSE]
           ELSE IF ~r.ok THEN [ok |-> FALSE, dom |-> TRUE]
           ELSE [ok |-> TRUE, dom |-> TRUE, node |-> r.v, base |-> full]

WithId(d, env, S) ==
  IF Has(S, IdKw(d)) /\ IsStr(Get(S, IdKw(d))) /\ Get(S, IdKw(d)).s # <<>>
  THEN [env EXCEPT !.base = ResolveText(env.base, Get(S, IdKw(d)).s)]
  ELSE env

----------------------------------------------------------------------------
RECURSIVE E(_, _, _, _, _)
RECURSIVE Kw(_, _, _, _, _, _, _)

Valid(d, env, S, I, f) == IsValidR(E(d, env, S, I, f))

\* one result per element of a sequence, joined
Each(n, F(_)) == JoinAll([k \in 1 .. n |-> F(k)])

FalseErr == [kw |-> <<>>, ip |-> <<>>, sp |-> <<>>, ctx |-> <<>>, tag |-> ""]

E(d, env, S, I, f) ==
  IF IsBool(S) THEN (IF S.b THEN R0 ELSE RErrs(<<FalseErr>>))
  ELSE IF ~IsObj(S) THEN ROod("notschema")
  ELSE
    LET env2 == WithId(d, env, S) IN
    IF Has(S, K_d_ref) /\ ~IsNull(Get(S, K_d_ref))
    THEN \* a reference object: every sibling keyword is ignored (drafts up to 7)
      LET ref == Get(S, K_d_ref) IN
      IF ~IsStr(ref) THEN ROod("refnotstring")
      ELSE LET t == Target(env2, ref.s) IN
           IF ~t.dom THEN ROod("badfragment")
           ELSE IF ~t.ok THEN RExc("ref")
           ELSE IF f = 0 THEN ROod("loop")
           ELSE E(d, [env2 EXCEPT !.base = t.base], t.node, I, f - 1)
    ELSE Each(Len(S.k), LAMBDA k :
           LET kw == S.k[k] IN
           IF kw \notin Keywords(d) THEN R0
           ELSE LET r == Kw(d, env2, S, I, f, kw, S.v[k]) IN
                IF kw = K_if THEN r ELSE Pre(r, <<>>, <<PS(kw)>>))

\* ----- the keywords -----------------------------------------------------------------------------------
TypeEntryMatches(d, env, entry, I, f) ==      \* Draft 3 type/disallow entry: a name or a schema
  IF IsStr(entry) THEN HasType(d, I, TypeNameOf(entry.s)) ELSE Valid(d, env, entry, I, f)
UnknownTypeNames(d, entries) ==
  { k \in DOMAIN entries : IsStr(entries[k]) /\ TypeNameOf(entries[k].s) \notin TypeNames(d) }
AsList(v) == IF IsArr(v) THEN v.e ELSE <<v>>

KwType(d, env, S, I, f, v) ==
  LET entries == AsList(v)
      unk == IF UnknownTypeNames(d, entries) # {} THEN RExc("type") ELSE R0
  IN  IF d >= 4
      THEN Join2(unk, RLeafIf(~\E k \in DOMAIN entries : IsStr(entries[k]) /\ HasType(d, I, TypeNameOf(entries[k].s)),
                              K_type))
      ELSE LET sub(k) == IF IsStr(entries[k]) THEN R0 ELSE Pre(E(d, env, entries[k], I, f), <<>>, <<PI(k - 1)>>)
               subs == Each(Len(entries), sub)
           IN  Join2(Join2(unk, Side(subs)),
                     IF \E k \in DOMAIN entries : TypeEntryMatches(d, env, entries[k], I, f) THEN R0
                     ELSE RErrs(<<[Leaf(K_type) EXCEPT !.ctx = subs.errs]>>))

KwDisallow(d, env, S, I, f, v) ==
  LET entries == AsList(v) IN
  Join2(IF UnknownTypeNames(d, entries) # {} THEN RExc("type") ELSE R0,
        Each(Len(entries), LAMBDA k :
          Join2(IF IsStr(entries[k]) THEN R0 ELSE Side(E(d, env, entries[k], I, f)),
                RLeafIf(TypeEntryMatches(d, env, entries[k], I, f), K_disallow))))

KwExtends(d, env, S, I, f, v) ==
  IF IsArr(v) THEN Each(Len(v.e), LAMBDA k : Pre(E(d, env, v.e[k], I, f), <<>>, <<PI(k - 1)>>))
  ELSE E(d, env, v, I, f)

ExclFlag(d, S, k) == d <= 4 /\ Has(S, k) /\ Truthy(Get(S, k))

KwMult(d, env, S, I, f, v, kw) ==
  IF ~IsNum(I) THEN R0
  ELSE IF ~IsNum(v) \/ IsZero(v) \/ v.neg THEN ROod("divisor")
  ELSE IF ~CanDivide(I, v) THEN ROod("undecided")
  ELSE IF ~ExactMultDomain(I, v) THEN ROod("inexact")
  ELSE RLeafIf(~MultOK(I, v), kw)

LenCmp(n, v) == Cmp(NatNum(n), v)     \* compare a length with a numeric keyword value

KwItems(d, env, S, I, f, v) ==
  IF ~IsArr(I) THEN R0
  ELSE IF IsArr(v)
       THEN Each(IF Len(I.e) < Len(v.e) THEN Len(I.e) ELSE Len(v.e),
                 LAMBDA k : Pre(E(d, env, v.e[k], I.e[k], FMAX), <<PI(k - 1)>>, <<PI(k - 1)>>))
       ELSE Each(Len(I.e), LAMBDA k : Pre(E(d, env, v, I.e[k], FMAX), <<PI(k - 1)>>, <<>>))

KwAdditionalItems(d, env, S, I, f, v) ==
  IF ~IsArr(I) \/ ~Has(S, K_items) \/ ~IsArr(Get(S, K_items)) THEN R0
  ELSE LET n == Len(Get(S, K_items).e) IN
       IF IsObj(v)
       THEN Each(Len(I.e), LAMBDA k : IF k <= n THEN R0 ELSE Pre(E(d, env, v, I.e[k], FMAX), <<PI(k - 1)>>, <<>>))
       ELSE RLeafIf(~Truthy(v) /\ Len(I.e) > n, K_additionalItems)

KwContains(d, env, S, I, f, v) ==
  IF ~IsArr(I) THEN R0
  ELSE LET rs == [k \in DOMAIN I.e |-> E(d, env, v, I.e[k], FMAX)] IN
       Join2(Side(JoinAll(rs)), RLeafIf(~\E k \in DOMAIN rs : IsValidR(rs[k]), K_contains))

KwRequired(d, env, S, I, f, v) ==
  IF ~IsObj(I) \/ ~IsArr(v) THEN R0
  ELSE Each(Len(v.e), LAMBDA k : RLeafIf(IsStr(v.e[k]) /\ ~HasKey(I, v.e[k].s), K_required))

KwProperties(d, env, S, I, f, v) ==
  IF ~IsObj(I) \/ ~IsObj(v) THEN R0
  ELSE Each(Len(v.k), LAMBDA k :
         LET name == v.k[k]  sub == v.v[k] IN
         IF HasKey(I, name) THEN Pre(E(d, env, sub, Get(I, name), FMAX), <<PS(name)>>, <<PS(name)>>)
         ELSE IF d = 3 /\ IsObj(sub) /\ Has(sub, K_required) /\ Truthy(Get(sub, K_required))
              THEN RErrs(<<[kw |-> K_required, ip |-> <<PS(name)>>, sp |-> <<PS(name), PS(K_required)>>,
                            ctx |-> <<>>, tag |-> "d3req"]>>)
              ELSE R0)

KwPatternProperties(d, env, S, I, f, v) ==
  IF ~IsObj(I) \/ ~IsObj(v) THEN R0
  ELSE Each(Len(v.k), LAMBDA p :
         Each(Len(I.k), LAMBDA m :
           LET pm == PatMatch(env, v.k[p], I.k[m]) IN
           IF pm = "ood" THEN ROod("regex")
           ELSE IF pm = "yes" THEN Pre(E(d, env, v.v[p], I.v[m], FMAX), <<PS(I.k[m])>>, <<PS(v.k[p])>>)
           ELSE R0))

\* the members of I that are neither named by `properties` nor matched by any pattern of `patternProperties`
ExtraInfo(env, S, I) ==
  LET props == IF Has(S, K_properties) /\ IsObj(Get(S, K_properties)) THEN Get(S, K_properties).k ELSE <<>>
      pats  == IF Has(S, K_patternProperties) /\ IsObj(Get(S, K_patternProperties))
               THEN Get(S, K_patternProperties).k ELSE <<>>
      named(m) == \E k \in DOMAIN props : props[k] = I.k[m]
      pm(m) == { PatMatch(env, pats[k], I.k[m]) : k \in DOMAIN pats }
  IN  [extras |-> { m \in DOMAIN I.k : ~named(m) /\ "yes" \notin pm(m) },
       ood    |-> \E m \in DOMAIN I.k : ~named(m) /\ "ood" \in pm(m)]

KwAdditionalProperties(d, env, S, I, f, v) ==
  IF ~IsObj(I) THEN R0
  ELSE LET x == ExtraInfo(env, S, I) IN
       IF x.ood THEN ROod("regex")
       ELSE IF IsObj(v)
            THEN Each(Len(I.k), LAMBDA m :
                   IF m \in x.extras THEN Pre(E(d, env, v, I.v[m], FMAX), <<PS(I.k[m])>>, <<>>) ELSE R0)
            ELSE RLeafIf(~Truthy(v) /\ x.extras # {}, K_additionalProperties)

KwPropertyNames(d, env, S, I, f, v) ==
  IF ~IsObj(I) THEN R0
  ELSE Tagged(Each(Len(I.k), LAMBDA m : E(d, env, v, JStr(I.k[m]), FMAX)), "pnames")

KwDependencies(d, env, S, I, f, v) ==
  IF ~IsObj(I) \/ ~IsObj(v) THEN R0
  ELSE Each(Len(v.k), LAMBDA k :
         LET prop == v.k[k]  dep == v.v[k] IN
         IF ~HasKey(I, prop) THEN R0
         ELSE IF IsArr(dep)
              THEN Each(Len(dep.e), LAMBDA j : RLeafIf(IsStr(dep.e[j]) /\ ~HasKey(I, dep.e[j].s), K_dependencies))
         ELSE IF d = 3 /\ IsStr(dep) THEN RLeafIf(~HasKey(I, dep.s), K_dependencies)
         ELSE Pre(E(d, env, dep, I, f), <<>>, <<PS(prop)>>))

KwAllOf(d, env, S, I, f, v) ==
  IF ~IsArr(v) THEN R0 ELSE Each(Len(v.e), LAMBDA k : Pre(E(d, env, v.e[k], I, f), <<>>, <<PI(k - 1)>>))

KwAnyOf(d, env, S, I, f, v) ==
  IF ~IsArr(v) THEN R0
  ELSE LET rs == [k \in DOMAIN v.e |-> Pre(E(d, env, v.e[k], I, f), <<>>, <<PI(k - 1)>>)]
           all == JoinAll(rs)
       IN  Join2(Side(all),
                 IF \E k \in DOMAIN rs : IsValidR(rs[k]) THEN R0
                 ELSE RErrs(<<[Leaf(K_anyOf) EXCEPT !.ctx = all.errs]>>))

KwOneOf(d, env, S, I, f, v) ==
  IF ~IsArr(v) THEN R0
  ELSE LET rs == [k \in DOMAIN v.e |-> Pre(E(d, env, v.e[k], I, f), <<>>, <<PI(k - 1)>>)]
           all == JoinAll(rs)
           nv  == Cardinality({ k \in DOMAIN rs : IsValidR(rs[k]) })
       IN  Join2(Side(all),
                 IF nv = 1 THEN R0
                 ELSE IF nv = 0 THEN RErrs(<<[Leaf(K_oneOf) EXCEPT !.ctx = all.errs]>>)
                 ELSE RLeaf(K_oneOf))

KwNot(d, env, S, I, f, v) ==
  LET r == E(d, env, v, I, f) IN Join2(Side(r), RLeafIf(IsValidR(r), K_not))

KwIf(d, env, S, I, f, v) ==
  LET c == E(d, env, v, I, f) IN
  Join2(Side(c),
        IF IsValidR(c)
        THEN (IF Has(S, K_then) THEN Pre(E(d, env, Get(S, K_then), I, f), <<>>, <<PS(K_then)>>) ELSE R0)
        ELSE (IF Has(S, K_else) THEN Pre(E(d, env, Get(S, K_else), I, f), <<>>, <<PS(K_else)>>) ELSE R0))

\* `format` follows the checker of the environment (module FormatProto, C12); absent checker: no effect
KwFormat(d, env, S, I, f, v) ==
  IF ~("fmt" \in DOMAIN env) THEN R0 ELSE ROod("format")

Kw(d, env, S, I, f, kw, v) ==
  CASE kw = K_type      -> KwType(d, env, S, I, f, v)
    [] kw = K_disallow  -> KwDisallow(d, env, S, I, f, v)
    [] kw = K_extends   -> KwExtends(d, env, S, I, f, v)
    [] kw = K_enum      -> RLeafIf(IsArr(v) /\ ~MemberEq(v.e, I), K_enum)
    [] kw = K_const     -> RLeafIf(~JsonEq(v, I), K_const)
    [] kw = K_minimum   -> RLeafIf(IsNum(I) /\ IsNum(v) /\ ~MinOK(I, v, ExclFlag(d, S, K_exclusiveMinimum)), K_minimum)
    [] kw = K_maximum   -> RLeafIf(IsNum(I) /\ IsNum(v) /\ ~MaxOK(I, v, ExclFlag(d, S, K_exclusiveMaximum)), K_maximum)
    [] kw = K_exclusiveMinimum -> RLeafIf(IsNum(I) /\ IsNum(v) /\ ~MinOK(I, v, TRUE), K_exclusiveMinimum)
    [] kw = K_exclusiveMaximum -> RLeafIf(IsNum(I) /\ IsNum(v) /\ ~MaxOK(I, v, TRUE), K_exclusiveMaximum)
    [] kw = K_multipleOf  -> KwMult(d, env, S, I, f, v, K_multipleOf)
    [] kw = K_divisibleBy -> KwMult(d, env, S, I, f, v, K_divisibleBy)
    [] kw = K_minLength -> RLeafIf(IsStr(I) /\ IsNum(v) /\ LenCmp(Len(I.s), v) < 0, K_minLength)
    [] kw = K_maxLength -> RLeafIf(IsStr(I) /\ IsNum(v) /\ LenCmp(Len(I.s), v) > 0, K_maxLength)
    [] kw = K_pattern   -> IF ~IsStr(I) \/ ~IsStr(v) THEN R0
                           ELSE LET pm == PatMatch(env, v.s, I.s) IN
                                IF pm = "ood" THEN ROod("regex") ELSE RLeafIf(pm = "no", K_pattern)
    [] kw = K_minItems  -> RLeafIf(IsArr(I) /\ IsNum(v) /\ LenCmp(Len(I.e), v) < 0, K_minItems)
    [] kw = K_maxItems  -> RLeafIf(IsArr(I) /\ IsNum(v) /\ LenCmp(Len(I.e), v) > 0, K_maxItems)
    [] kw = K_uniqueItems -> RLeafIf(Truthy(v) /\ IsArr(I) /\ ~AllUnique(I), K_uniqueItems)
    [] kw = K_items     -> KwItems(d, env, S, I, f, v)
    [] kw = K_additionalItems -> KwAdditionalItems(d, env, S, I, f, v)
    [] kw = K_contains  -> KwContains(d, env, S, I, f, v)
    [] kw = K_minProperties -> RLeafIf(IsObj(I) /\ IsNum(v) /\ LenCmp(Len(I.k), v) < 0, K_minProperties)
    [] kw = K_maxProperties -> RLeafIf(IsObj(I) /\ IsNum(v) /\ LenCmp(Len(I.k), v) > 0, K_maxProperties)
    [] kw = K_required  -> KwRequired(d, env, S, I, f, v)
    [] kw = K_properties -> KwProperties(d, env, S, I, f, v)
    [] kw = K_patternProperties -> KwPatternProperties(d, env, S, I, f, v)
    [] kw = K_additionalProperties -> KwAdditionalProperties(d, env, S, I, f, v)
    [] kw = K_propertyNames -> KwPropertyNames(d, env, S, I, f, v)
    [] kw = K_dependencies -> KwDependencies(d, env, S, I, f, v)
    [] kw = K_allOf     -> KwAllOf(d, env, S, I, f, v)
    [] kw = K_anyOf     -> KwAnyOf(d, env, S, I, f, v)
    [] kw = K_oneOf     -> KwOneOf(d, env, S, I, f, v)
    [] kw = K_not       -> KwNot(d, env, S, I, f, v)
    [] kw = K_if        -> KwIf(d, env, S, I, f, v)
    [] kw = K_format    -> KwFormat(d, env, S, I, f, v)
    [] OTHER            -> R0

----------------------------------------------------------------------------
(* entry points *)

\* environment for a single self-contained document with base URI text `base`
Env1(root, base, pats) == [docs |-> <<[u |-> Defrag(base)[1], doc |-> root]>>, base |-> base, pats |-> pats]
\* environment with further store documents: docs is a sequence of [u, doc]
EnvN(root, base, more, pats) ==
  [docs |-> <<[u |-> Defrag(base)[1], doc |-> root]>> \o more, base |-> base, pats |-> pats]

\* a validator built for root schema S without an explicit resolver knows S under S's own id (its base URI)
RootBase(d, S) == IF Has(S, IdKw(d)) /\ IsStr(Get(S, IdKw(d))) THEN Get(S, IdKw(d)).s ELSE <<>>
EnvFor(d, S, pats) == Env1(S, RootBase(d, S), pats)

Run(d, env, S, I) == E(d, env, S, I, FMAX)

\* outcome class of a validation (C03): what an entry point may do
Outcomes(r) == (IF r.errs = <<>> THEN {"valid"} ELSE {"invalid"}) \cup r.exc

----------------------------------------------------------------------------
(* comparison of error collections as bags (order carries no meaning) *)
RECURSIVE ErrEq(_, _)
RECURSIVE SameBag(_, _)
ErrEq(a, b) == a.kw = b.kw /\ a.ip = b.ip /\ a.sp = b.sp /\ SameBag(a.ctx, b.ctx)
CountIn(s, e) == Cardinality({ k \in DOMAIN s : ErrEq(s[k], e) })
SameBag(s1, s2) == /\ Len(s1) = Len(s2)
                   /\ \A k \in DOMAIN s1 : CountIn(s1, s1[k]) = CountIn(s2, s1[k])

----------------------------------------------------------------------------
(* C05: restriction of a schema object to one keyword and the siblings it consults; attribution *)
\* the members of S named k or consulted by k, in their original order
Restr(d, S, k) ==
  LET keep == SelectSeq([i \in DOMAIN S.k |-> i], LAMBDA i : S.k[i] = k \/ S.k[i] \in Consults(d, k)) IN
  JObj([j \in DOMAIN keep |-> S.k[keep[j]]], [j \in DOMAIN keep |-> S.v[keep[j]]])
\* the keyword an error is attributed to: first element of its schema path (then/else count as if)
AttrOfPath(sp) == IF sp = <<>> THEN <<>>
                  ELSE LET h == sp[1].s IN IF h \in {K_then, K_else} THEN K_if ELSE h
Attr(e) == AttrOfPath(e.sp)
OfKw(es, k) == SelectSeq(es, LAMBDA e : Attr(e) = k)
Active(d, S) == { S.k[i] : i \in { i \in DOMAIN S.k : S.k[i] \in Keywords(d) } }
=============================================================================
