--------------------------------- MODULE Uri ---------------------------------
(***************************************************************************)
(* URI references (RFC 3986) over code-point sequences: parsing into the   *)
(* five components (Appendix B), reference resolution (section 5.2) with   *)
(* merge and remove_dot_segments, recomposition (5.3), and the two         *)
(* normalisations the validator's document store relies on (dropping the   *)
(* fragment; ignoring an empty fragment and the case of the scheme).       *)
(* "Absent" and "empty" components are distinguished by has-flags.         *)
(***************************************************************************)
EXTENDS Integers, Sequences, SequencesExt

COLON == 58  SLASH == 47  QMARK == 63  HASH == 35  DOT == 46

\* index of the first element of s (from position i) that belongs to set C, or 0
RECURSIVE FirstIn(_, _, _)
FirstIn(s, i, C) == IF i > Len(s) THEN 0 ELSE IF s[i] \in C THEN i ELSE FirstIn(s, i + 1, C)

Before(s, i) == SubSeq(s, 1, i - 1)
After(s, i)  == SubSeq(s, i + 1, Len(s))

IsAlpha(c) == (c >= 65 /\ c <= 90) \/ (c >= 97 /\ c <= 122)
IsSchemeChar(c) == IsAlpha(c) \/ (c >= 48 /\ c <= 57) \/ c \in {43, 45, 46}
IsSchemeText(s) == s # <<>> /\ IsAlpha(s[1]) /\ \A k \in DOMAIN s : IsSchemeChar(s[k])

\* [hs, s, ha, a, p, hq, q, hf, f]
Parse(u) ==
  LET hi   == FirstIn(u, 1, {HASH})
      hf   == hi # 0
      f    == IF hf THEN After(u, hi) ELSE <<>>
      u1   == IF hf THEN Before(u, hi) ELSE u
      qi   == FirstIn(u1, 1, {QMARK})
      hq   == qi # 0
      q    == IF hq THEN After(u1, qi) ELSE <<>>
      u2   == IF hq THEN Before(u1, qi) ELSE u1
      ci   == FirstIn(u2, 1, {COLON, SLASH})
      hs   == ci # 0 /\ u2[ci] = COLON /\ IsSchemeText(Before(u2, ci))
      s    == IF hs THEN Before(u2, ci) ELSE <<>>
      u3   == IF hs THEN After(u2, ci) ELSE u2
      ha   == Len(u3) >= 2 /\ u3[1] = SLASH /\ u3[2] = SLASH
      u4   == IF ha THEN SubSeq(u3, 3, Len(u3)) ELSE u3
      si   == FirstIn(u4, 1, {SLASH})
      a    == IF ha THEN (IF si = 0 THEN u4 ELSE Before(u4, si)) ELSE <<>>
      p    == IF ha THEN (IF si = 0 THEN <<>> ELSE SubSeq(u4, si, Len(u4))) ELSE u4
  IN  [hs |-> hs, s |-> s, ha |-> ha, a |-> a, p |-> p, hq |-> hq, q |-> q, hf |-> hf, f |-> f]

\* 5.3 component recomposition
Recompose(r) ==
  (IF r.hs THEN r.s \o <<COLON>> ELSE <<>>)
  \o (IF r.ha THEN <<SLASH, SLASH>> \o r.a ELSE <<>>)
  \o r.p
  \o (IF r.hq THEN <<QMARK>> \o r.q ELSE <<>>)
  \o (IF r.hf THEN <<HASH>> \o r.f ELSE <<>>)

\* split a path on "/" keeping empty segments:  "/a//b" -> <<"", "a", "", "b">>
RECURSIVE SplitOn(_, _, _, _)
SplitOn(p, i, cur, c) ==
  IF i > Len(p) THEN <<cur>>
  ELSE IF p[i] = c THEN <<cur>> \o SplitOn(p, i + 1, <<>>, c)
  ELSE SplitOn(p, i + 1, Append(cur, p[i]), c)
RECURSIVE JoinWith(_, _)
JoinWith(segs, c) == IF segs = <<>> THEN <<>>
                     ELSE IF Len(segs) = 1 THEN segs[1] ELSE segs[1] \o <<c>> \o JoinWith(Tail(segs), c)

\* 5.2.4 remove_dot_segments, on the segment list of a path.  Working on segments: "." is dropped, ".."
\* drops the previous segment (never the leading empty segment that stands for the initial "/"); when the
\* last segment is "." or ".." the result ends with "/".
RECURSIVE RDS(_, _, _)
RDS(segs, k, out) ==
  IF k > Len(segs) THEN out
  ELSE LET sg == segs[k]  last == k = Len(segs) IN
       IF sg = <<DOT>> THEN RDS(segs, k + 1, IF last THEN Append(out, <<>>) ELSE out)
       ELSE IF sg = <<DOT, DOT>>
            THEN LET keepRoot == Len(out) >= 1 /\ out[1] = <<>> /\ Len(out) = 1
                     popped == IF out = <<>> \/ keepRoot THEN out ELSE SubSeq(out, 1, Len(out) - 1)
                 IN  RDS(segs, k + 1, IF last THEN Append(popped, <<>>) ELSE popped)
       ELSE RDS(segs, k + 1, Append(out, sg))
RemoveDots(p) ==
  IF p = <<>> THEN <<>>
  ELSE LET abs == p[1] = SLASH
           segs == SplitOn(p, 1, <<>>, SLASH)          \* absolute paths start with an empty segment
           out == RDS(segs, 1, <<>>)
           txt == JoinWith(out, SLASH)
       IN  IF abs /\ (txt = <<>> \/ txt[1] # SLASH) THEN <<SLASH>> \o txt ELSE txt

\* 5.2.3 merge
Merge(b, rp) ==
  IF b.ha /\ b.p = <<>> THEN <<SLASH>> \o rp
  ELSE LET li == CHOOSE i \in 0 .. Len(b.p) : (i = 0 \/ b.p[i] = SLASH) /\ \A j \in (i + 1) .. Len(b.p) : b.p[j] # SLASH
       IN  SubSeq(b.p, 1, li) \o rp

\* 5.2.2 transform references (strict)
ResolveParsed(b, r) ==
  IF r.hs THEN [r EXCEPT !.p = RemoveDots(r.p)]
  ELSE IF r.ha THEN [r EXCEPT !.hs = b.hs, !.s = b.s, !.p = RemoveDots(r.p)]
  ELSE IF r.p = <<>>
       THEN [hs |-> b.hs, s |-> b.s, ha |-> b.ha, a |-> b.a, p |-> b.p,
             hq |-> IF r.hq THEN TRUE ELSE b.hq, q |-> IF r.hq THEN r.q ELSE b.q, hf |-> r.hf, f |-> r.f]
       ELSE [hs |-> b.hs, s |-> b.s, ha |-> b.ha, a |-> b.a,
             p |-> IF r.p[1] = SLASH THEN RemoveDots(r.p) ELSE RemoveDots(Merge(b, r.p)),
             hq |-> r.hq, q |-> r.q, hf |-> r.hf, f |-> r.f]

IsAbsoluteText(u) == Parse(u).hs
IsSameDocumentRef(r) == r = <<>> \/ r[1] = HASH

\* Where RFC 3986 defines reference resolution: an absolute base; or no base at all (the reference is then
\* taken as it is: same-document and absolute references keep their meaning); or a same-document / absolute
\* reference against any base.  A relative-path reference against a relative base has no defined meaning.
ResolveDefined(base, ref) ==
  base = <<>> \/ IsAbsoluteText(base) \/ IsSameDocumentRef(ref) \/ IsAbsoluteText(ref)

\* the text of the target URI of reference `ref` resolved against base text `base`
ResolveText(base, ref) ==
  IF base = <<>> THEN ref
  ELSE Recompose(ResolveParsed(Parse(base), Parse(ref)))

\* <<document part, fragment>> of a URI text (fragment without "#"; absent and empty are not distinguished)
Defrag(u) == LET hi == FirstIn(u, 1, {HASH}) IN
             IF hi = 0 THEN <<u, <<>>>> ELSE <<Before(u, hi), After(u, hi)>>

Lower(c) == IF c >= 65 /\ c <= 90 THEN c + 32 ELSE c
\* store-key normalisation: no fragment, scheme case-insensitive
NormDoc(u) == LET d == Defrag(u)[1]  p == Parse(d) IN
              IF p.hs THEN Recompose([p EXCEPT !.s = [k \in DOMAIN p.s |-> Lower(p.s[k])]]) ELSE d
SameDoc(u1, u2) == NormDoc(u1) = NormDoc(u2)
=============================================================================
