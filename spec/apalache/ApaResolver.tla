----------------------------- MODULE ApaResolver -----------------------------
(***************************************************************************)
(* Unbounded-history safety of the retrieval/caching design (C15) by an    *)
(* inductive invariant, discharged with Apalache:                          *)
(*     Init => IndInv         (length 0)                                   *)
(*     IndInv /\ Next => IndInv'   (length 1, initial states from IndInit) *)
(* The state is the one of spec/Resolver with the fetch log abstracted to  *)
(* what the invariants need: the SET of documents fetched successfully,    *)
(* the number (saturating at 2) of successful fetches per document and whether a fetch       *)
(* happened after a success.  Same transition relation otherwise.          *)
(***************************************************************************)
EXTENDS Integers, FiniteSets

CONSTANTS
  \* @type: Set(Str);
  RemoteDocs,
  \* @type: Set(Str);
  LocalDocs,
  \* @type: Bool;
  CacheRemote,
  \* @type: Str;
  CacheKind,
  \* @type: Set(Str);
  FailDocs,
  \* @type: Set(Str);
  FailOnceDocs

VARIABLES
  \* @type: Set(Str);
  store,
  \* @type: Set(<<Str, Str>>);
  ucache,
  \* @type: Str -> Int;
  okcount,
  \* @type: Set(Str);
  refetched,
  \* @type: Set(Str);
  localfetched,
  \* @type: Set(Str);
  pending

Frags == {"none", "empty", "ptr", "bad"}
Docs == RemoteDocs \union LocalDocs

ConstInit == /\ RemoteDocs = {"r1", "r2"} /\ LocalDocs = {"s", "meta"}
             /\ CacheRemote \in BOOLEAN /\ CacheKind \in {"lru", "pass", "tiny"}
             /\ FailDocs \in SUBSET {"r1", "r2"} /\ FailOnceDocs \in SUBSET {"r1", "r2"}

Init == /\ store = LocalDocs /\ ucache = {} /\ okcount = [d \in Docs |-> 0]
        /\ refetched = {} /\ localfetched = {} /\ pending = FailOnceDocs

Remember(u) == IF CacheKind = "lru" THEN ucache \union {u} ELSE IF CacheKind = "pass" THEN {} ELSE {u}

Resolve(d, f) ==
  LET \* @type: <<Str, Str>>;
      u == <<d, f>> IN
  \/ /\ u \in ucache
     /\ UNCHANGED <<store, ucache, okcount, refetched, localfetched, pending>>
  \/ /\ u \notin ucache /\ d \in store
     /\ ucache' = IF f # "bad" THEN Remember(u) ELSE ucache
     /\ UNCHANGED <<store, okcount, refetched, localfetched, pending>>
  \/ /\ u \notin ucache /\ d \notin store
     /\ LET fails == d \in FailDocs \/ d \in pending IN
        /\ pending' = pending \ {d}
        /\ localfetched' = IF d \in LocalDocs THEN localfetched \union {d} ELSE localfetched
        /\ refetched' = IF okcount[d] > 0 THEN refetched \union {d} ELSE refetched
        /\ IF fails
           THEN UNCHANGED <<store, ucache, okcount>>
           ELSE /\ okcount' = [okcount EXCEPT ![d] = IF @ < 2 THEN @ + 1 ELSE 2]     \* saturating: only "<= 1" matters
                /\ store' = IF CacheRemote THEN store \union {d} ELSE store
                /\ ucache' = IF f # "bad" THEN Remember(u) ELSE ucache

Next == \E d \in Docs, f \in Frags : Resolve(d, f)

\* the property's clauses
FetchOnce == CacheRemote => \A d \in RemoteDocs : okcount[d] <= 1 /\ d \notin refetched
StoreStable == ~CacheRemote => store = LocalDocs
LocalNeverFetched == localfetched = {}

\* the inductive strengthening
TypeOK == /\ store \subseteq Docs /\ pending \subseteq RemoteDocs /\ refetched \subseteq Docs /\ localfetched \subseteq Docs
          /\ ucache \subseteq (Docs \X Frags)
          /\ okcount \in [Docs -> 0 .. 2]
IndInv == /\ TypeOK
          /\ LocalDocs \subseteq store
          /\ FetchOnce /\ StoreStable /\ LocalNeverFetched
          /\ (CacheRemote => \A d \in RemoteDocs : (okcount[d] > 0) <=> (d \in store))
          /\ \A d \in LocalDocs : okcount[d] = 0
\* an arbitrary state satisfying the inductive invariant (the variables are first assigned from their types)
IndInit == /\ store \in SUBSET Docs /\ ucache \in SUBSET (Docs \X Frags) /\ okcount \in [Docs -> 0 .. 2]
           /\ refetched \in SUBSET Docs /\ localfetched \in SUBSET Docs /\ pending \in SUBSET RemoteDocs
           /\ IndInv
=============================================================================
