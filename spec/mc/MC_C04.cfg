SPECIFICATION Spec
CONSTANT MaxErrs = 2
INVARIANT BestInCandidates
INVARIANT Agreement
PROPERTY FirstStable
CHECK_DEADLOCK FALSE
