------------------------------- MODULE MC_C04 -------------------------------
(***************************************************************************)
(* Model of the entry-point protocol over all error sequences of <= MaxErrs*)
(* errors with context trees of depth <= 2 over a small alphabet: the      *)
(* sequence is built error by error (Yield), and the entry points are      *)
(* macro-steps over it.  Invariants: the documented best_match algorithm   *)
(* always returns a best candidate; is_valid / validate / module validate  *)
(* agree on emptiness.                                                     *)
(***************************************************************************)
EXTENDS EntryPoints, TLC

CONSTANT MaxErrs
VARIABLE errs

Kws == {"type", "anyOf", "oneOf"}
Paths == {<<>>, <<1>>, <<1, 2>>}
Leaf(k, p) == [none |-> FALSE, kw |-> <<>>, kwn |-> k, msg |-> 0, ip |-> p, sp |-> <<>>, ctx |-> <<>>]
LeafErrs == { Leaf(k, p) : k \in {"type"}, p \in Paths }
Ctx1 == { <<a>> : a \in LeafErrs } \cup { <<a, b>> : a, b \in LeafErrs }
Mid == { [Leaf(k, p) EXCEPT !.ctx = c] : k \in {"anyOf", "oneOf"}, p \in {<<>>, <<1>>}, c \in Ctx1 }
Top == LeafErrs \cup { Leaf(k, p) : k \in {"anyOf", "oneOf"}, p \in {<<>>} } \cup Mid
         \cup { [Leaf("anyOf", <<>>) EXCEPT !.ctx = <<m, l>>] : m \in { x \in Mid : x.ip = <<>> /\ Len(x.ctx) = 1 }, l \in LeafErrs }

Init == errs = <<>>
Yield(e) == Len(errs) < MaxErrs /\ errs' = Append(errs, e)
Next == \E e \in Top : Yield(e)
Spec == Init /\ [][Next]_errs

IsValid == errs = <<>>
ValidateRaises == IF errs = <<>> THEN "none" ELSE "first"
BestInCandidates == errs # <<>> => IsBestCandidate(BestMatchModel(errs), errs)
Agreement == (IsValid <=> ValidateRaises = "none") /\ (IsValid <=> Leaves(errs) = {})
\* validate() raises the first yielded error: an action property of Yield -- the first element never changes
FirstStable == [][ errs # <<>> => errs'[1] = errs[1] ]_errs
=============================================================================
