SPECIFICATION Spec
CONSTANT MaxErrs = 3
INVARIANT BestInCandidates
INVARIANT Agreement
PROPERTY FirstStable
CHECK_DEADLOCK FALSE
