------------------------------- MODULE MC_C08 -------------------------------
(***************************************************************************)
(* Bounded model for C08.  The universe of value PAIRS is the set of       *)
(* reachable states of a builder machine: both components start as atoms   *)
(* and are grown by wrapping them in arrays and objects up to MaxDepth.    *)
(* TLC checks on every pair that JsonEq is an equivalence, that the three  *)
(* keywords' acceptance conditions agree, and (action property) that       *)
(* wrapping both sides the same way preserves and reflects equality.       *)
(* Every state is exported (one JSON line) with the expected relation and  *)
(* replayed into the real library.                                         *)
(***************************************************************************)
EXTENDS Equality, Names, TLC, Json

CONSTANTS MaxDepth,   \* nesting depth of either component
          Export      \* TRUE: print one JSON line per state

VARIABLES a, b, da, db
vars == <<a, b, da, db>>

P53 == <<53>>
Atoms == { JNull, JTrue, JFalse,
           JInt(<<>>), JInt(<<0>>), JFloat(TRUE, <<>>), JFloat(FALSE, <<0>>), JFloat(FALSE, <<>>),
           JInt(P53), JFloat(FALSE, P53), JInt(<<53, 0>>),
           JStr(<<>>), JStr(S_a), JStr(<<49>>) }
\* operands of the binary wrappers: the values that differ only by bool<->0/1 and 1<->1.0
Small == { JTrue, JFalse, JInt(<<>>), JInt(<<0>>), JFloat(FALSE, <<0>>), JStr(S_a) }

Unary == {"arr1", "obj1", "objb"}        \* [x], {"a": x}, {"b": x}: objects of equal size with different key sets
Binary == {"arrL", "arrR", "objAB", "objBA"}

Wrap1(w, x) == IF w = "arr1" THEN JArr(<<x>>) ELSE IF w = "obj1" THEN JObj(<<S_a>>, <<x>>) ELSE JObj(<<S_b>>, <<x>>)
Wrap2(w, x, y) ==
  CASE w = "arrL"  -> JArr(<<x, y>>)
    [] w = "arrR"  -> JArr(<<y, x>>)
    [] w = "objAB" -> JObj(<<S_a, S_b>>, <<x, y>>)
    [] w = "objBA" -> JObj(<<S_b, S_a>>, <<y, x>>)

Init == a \in Atoms /\ b \in Atoms /\ da = 0 /\ db = 0

GrowA1(w) == da < MaxDepth /\ a' = Wrap1(w, a) /\ da' = da + 1 /\ UNCHANGED <<b, db>>
GrowB1(w) == db < MaxDepth /\ b' = Wrap1(w, b) /\ db' = db + 1 /\ UNCHANGED <<a, da>>
GrowA2(w, y) == da = 0 /\ a \in Small /\ a' = Wrap2(w, a, y) /\ da' = 1 /\ UNCHANGED <<b, db>>
GrowB2(w, y) == db = 0 /\ b \in Small /\ b' = Wrap2(w, b, y) /\ db' = 1 /\ UNCHANGED <<a, da>>
\* grow both sides by the same wrapper (used by the congruence action property)
GrowBoth(w) == da < MaxDepth /\ db < MaxDepth /\ a' = Wrap1(w, a) /\ b' = Wrap1(w, b)
               /\ da' = da + 1 /\ db' = db + 1

Next == \/ \E w \in Unary : GrowA1(w) \/ GrowB1(w) \/ GrowBoth(w)
        \/ \E w \in Binary, y \in Small : GrowA2(w, y) \/ GrowB2(w, y)

Spec == Init /\ [][Next]_vars

----------------------------------------------------------------------------
Reflexive  == JsonEq(a, a) /\ JsonEq(b, b)
Symmetric  == JsonEq(a, b) <=> JsonEq(b, a)
Transitive == \A c \in Atoms \cup { Wrap1(w, x) : w \in Unary, x \in Small } :
                 (JsonEq(a, b) /\ JsonEq(b, c)) => JsonEq(a, c)
\* structural identity implies JSON equality; a boolean never equals a number
Refines    == (a = b => JsonEq(a, b)) /\ ((IsBool(a) /\ IsNum(b)) => ~JsonEq(a, b))
KeywordsAgree == Agree(a, b)
\* wrapping both sides identically neither creates nor destroys equality
Congruence == [][ (da' = da + 1 /\ db' = db + 1) => (JsonEq(a, b) <=> JsonEq(a', b')) ]_vars

ExportInv == Export => PrintT(ToJson([a |-> a, b |-> b, eq |-> JsonEq(a, b)]))
=============================================================================
