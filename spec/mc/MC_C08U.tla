------------------------------ MODULE MC_C08U ------------------------------
(***************************************************************************)
(* Bounded model for the uniqueItems half of C08: arrays built element by  *)
(* element (the universe is the reachable states of the Append machine),   *)
(* over elements chosen so that every strategy an implementation may use   *)
(* is exercised: all-hashable scalars; unhashable but sortable (arrays);   *)
(* unsortable (objects, mixed); duplicates adjacent and far apart.         *)
(* Invariant: uniqueness is monotone (a super-array of a non-unique array  *)
(* is non-unique) and agrees with pairwise JsonEq.                         *)
(***************************************************************************)
EXTENDS Equality, Names, TLC, Json

CONSTANTS MaxLen, Export

VARIABLE arr
Zero == JInt(<<>>)   One == JInt(<<0>>)   OneF == JFloat(FALSE, <<0>>)
Elems == { Zero, JFalse, One, JTrue, OneF, JStr(S_a),
           JArr(<<Zero>>), JArr(<<JFalse>>), JArr(<<One>>), JArr(<<JTrue>>), JArr(<<OneF>>),
           JObj(<<S_a>>, <<Zero>>), JObj(<<S_a>>, <<JFalse>>),
           JArr(<<JArr(<<Zero>>)>>), JArr(<<JArr(<<JFalse>>)>>) }

Init == arr = JArr(<<>>)
AppendElem(x) == Len(arr.e) < MaxLen /\ arr' = JArr(Append(arr.e, x))
Next == \E x \in Elems : AppendElem(x)
Spec == Init /\ [][Next]_arr

Monotone == [][ ~UniqueAccepts(arr) => ~UniqueAccepts(arr') ]_arr
\* appending x keeps the array unique iff it was unique and x equals no element
StepLaw  == [][ UniqueAccepts(arr') <=> (UniqueAccepts(arr) /\ ~MemberEq(arr.e, arr'.e[Len(arr'.e)])) ]_arr
ExportInv == Export => PrintT(ToJson([arr |-> arr, uniq |-> UniqueAccepts(arr)]))
=============================================================================
