SPECIFICATION Spec
CONSTANTS
  MaxLen = 3
  Export = TRUE
INVARIANT ExportInv
PROPERTY Monotone
PROPERTY StepLaw
CHECK_DEADLOCK FALSE
