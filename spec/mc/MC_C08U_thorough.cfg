SPECIFICATION Spec
CONSTANTS
  MaxLen = 4
  Export = TRUE
INVARIANT ExportInv
PROPERTY Monotone
PROPERTY StepLaw
CHECK_DEADLOCK FALSE
