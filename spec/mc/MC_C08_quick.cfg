SPECIFICATION Spec
CONSTANTS
  MaxDepth = 1
  Export = TRUE
INVARIANT Reflexive
INVARIANT Symmetric
INVARIANT Transitive
INVARIANT Refines
INVARIANT KeywordsAgree
INVARIANT ExportInv
PROPERTY Congruence
CHECK_DEADLOCK FALSE
