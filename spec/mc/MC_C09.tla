------------------------------- MODULE MC_C09 -------------------------------
(***************************************************************************)
(* Bounded model for C09.  The universe of (instance, bound) number pairs  *)
(* is the set of reachable states of a machine that builds both numbers    *)
(* bit by bit (strictly decreasing exponents from Exps), flips signs and   *)
(* chooses the Python representation (int when integral, float when a      *)
(* double can hold the value).  The exponent set reaches subnormals, the   *)
(* 2^53 collapse region, the float overflow boundary 2^1024 and integers   *)
(* no float can represent.                                                 *)
(* Invariants guard the oracle itself (comparison is antisymmetric and     *)
(* consistent with subtraction, the two division algorithms agree, adding  *)
(* the divisor preserves divisibility); every state is exported with the   *)
(* expected outcome of each keyword form.                                  *)
(***************************************************************************)
EXTENDS Numeric, TLC, Json

CONSTANTS Exps,      \* set of exponents
          MaxBits,   \* bits per number
          Export

VARIABLES x, b
vars == <<x, b>>

ZeroInt == JInt(<<>>)

\* representations a magnitude (as decreasing sequence of exponents) may take
CanBeInt(bits)   == \A i \in DOMAIN bits : bits[i] >= 0
CanBeFloat(bits) == IsDouble(SeqRange(bits))

AddBit(n, e)  == [n EXCEPT !.bits = Append(n.bits, e)]
\* the numbers reachable from n in one step
Succ(n) ==
  LET grown == { AddBit(n, e) : e \in { e \in Exps : Len(n.bits) < MaxBits /\ (n.bits # <<>> => e < n.bits[Len(n.bits)]) } }
  IN  { [g EXCEPT !.fl = FALSE] : g \in { g \in grown : CanBeInt(g.bits) } }
      \cup { [g EXCEPT !.fl = TRUE] : g \in { g \in grown : CanBeFloat(g.bits) } }
      \cup (IF ~n.neg /\ (n.bits # <<>> \/ n.fl) THEN { [n EXCEPT !.neg = TRUE] } ELSE {})   \* -0 only as a float
      \cup (IF n.bits = <<>> /\ ~n.fl /\ ~n.neg THEN { [n EXCEPT !.fl = TRUE] } ELSE {})     \* 0 -> 0.0

ExpsQuick    == {-1074, -1, 0, 1, 52, 53, 54, 1023, 1024, 1200, 15000}
ExpsThorough == {-1074, -1022, -600, -53, -1, 0, 1, 2, 52, 53, 54, 600, 1023, 1024, 1200, 10000, 15000}

Init == x = ZeroInt /\ b = ZeroInt
Next == \/ (x' \in Succ(x) /\ UNCHANGED b)
        \/ (b' \in Succ(b) /\ UNCHANGED x)
Spec == Init /\ [][Next]_vars

----------------------------------------------------------------------------
Antisym   == Cmp(x, b) = -Cmp(b, x) /\ Cmp(x, x) = 0
\* x < b  iff  b - x > 0 for same-sign operands: checked through magnitudes
SubLaw    == (MagCmp(Mag(x), Mag(b)) >= 0 /\ (Mag(b) = {} \/ MaxOf(Mag(x)) - MinOf(Mag(b)) <= 300)) => MagAdd(MagSub(Mag(x), Mag(b)), Mag(b)) = Mag(x)
Duality   == /\ MinOK(x, b, FALSE) <=> ~MaxOK(x, b, TRUE)
             /\ MinOK(x, b, TRUE)  <=> ~MaxOK(x, b, FALSE)
             /\ (MinOK(x, b, FALSE) /\ MaxOK(x, b, FALSE)) <=> NumEq(x, b)
Pos(n)    == ~IsZero(n) /\ ~n.neg
\* the two division algorithms agree wherever both apply
AlgosAgree == (Pos(b) /\ ~IsZero(x)) =>
   LET X == OddPart(Mag(x))  B == OddPart(Mag(b)) IN
     (IsSmall(B) /\ DivSteps(X, B) <= 160 /\ MagCmp(X, B) >= 0) => ((SumMod(X, SmallVal(B)) = 0) <=> (MagMod(X, B) = {}))
\* x is a multiple of b  iff  |x| + |b| is
AddLaw == (Pos(b) /\ CanDivide(x, b)) =>
   LET y == [x EXCEPT !.bits = <<>>] IN
   LET S == MagAdd(Mag(x), Mag(b)) IN
     (IsSmall(OddPart(Mag(b))) \/ S = {} \/ MaxOf(S) - MaxOf(Mag(b)) <= 150) =>
        (Divides(b, x) <=> (S = {} \/ (MinOf(S) >= Val2(Mag(b)) /\
             (IF IsSmall(OddPart(Mag(b))) THEN SumMod(OddPart(S), SmallVal(OddPart(Mag(b)))) = 0
              ELSE MagMod(OddPart(S), OddPart(Mag(b))) = {}))))

Out(ok) == IF ok THEN "valid" ELSE "invalid"
ExportInv == Export => PrintT(ToJson(
   [x |-> x, b |-> b,
    min |-> Out(MinOK(x, b, FALSE)), minx |-> Out(MinOK(x, b, TRUE)),
    max |-> Out(MaxOK(x, b, FALSE)), maxx |-> Out(MaxOK(x, b, TRUE)),
    maxp |-> Out(MaxPairOK(x, b)), minp |-> Out(MinPairOK(x, b)),
    mult |-> IF ~Pos(b) THEN "n/a" ELSE IF ~CanDivide(x, b) THEN "undecided"
             ELSE IF ~ExactMultDomain(x, b) THEN "any" ELSE Out(MultOK(x, b))]))
=============================================================================
