SPECIFICATION Spec
CONSTANTS
  Exps <- ExpsQuick
  MaxBits = 2
  Export = TRUE
INVARIANT Antisym
INVARIANT SubLaw
INVARIANT Duality
INVARIANT AlgosAgree
INVARIANT AddLaw
INVARIANT ExportInv
CHECK_DEADLOCK FALSE
