SPECIFICATION Spec
CONSTANTS
  Exps <- ExpsThorough
  MaxBits = 2
  Export = TRUE
INVARIANT Antisym
INVARIANT SubLaw
INVARIANT Duality
INVARIANT AlgosAgree
INVARIANT AddLaw
INVARIANT ExportInv
CHECK_DEADLOCK FALSE
