------------------------------- MODULE MC_C12 -------------------------------
(***************************************************************************)
(* All checker configurations reachable by <= MaxRegs registrations        *)
(* (checker.checks(name, raises)(fn) with the four custom behaviours, on a *)
(* name that is new, or that overrides a built-in) starting from: no       *)
(* checker, FormatChecker(), FormatChecker(formats=subset), and the four   *)
(* draft-specific checkers; then a probe (format name, instance).          *)
(* Exported: configuration, probe, expected outcome.                       *)
(***************************************************************************)
EXTENDS FormatProto, TLC, Json

CONSTANT MaxRegs
VARIABLES base, chk, regs, probe, early
vars == <<base, chk, regs, probe, early>>

\* what the base checkers register (names probed only; the installation's full list is read by the harness)
Builtins(b) ==
  CASE b = "default" -> [n \in {"email", "ipv4", "ipv6", "date", "regex"} |-> IF n = "regex" THEN "b:other" ELSE "b:" \o n]
    [] b = "subset"  -> [n \in {"email", "ipv4", "date"} |-> "b:" \o n]
    [] b = "empty"   -> [n \in {} |-> "x"]
    [] b = "draft3"  -> [n \in {"email", "ip-address", "ipv6", "date", "regex"} |->
                           IF n = "ip-address" THEN "b:ipv4" ELSE IF n = "regex" THEN "b:other" ELSE "b:" \o n]
    [] b = "draft4"  -> [n \in {"email", "ipv4", "ipv6", "regex"} |-> IF n = "regex" THEN "b:other" ELSE "b:" \o n]
    [] b = "draft7"  -> [n \in {"email", "ipv4", "ipv6", "date", "regex"} |-> IF n = "regex" THEN "b:other" ELSE "b:" \o n]
Bases == {"none", "default", "subset", "empty", "draft3", "draft4", "draft7"}
\* (defined before Init)
Customisable == {"default", "subset", "empty"}        \* fresh objects; the shared draft checkers are only probed

Names == {"email", "ipv4", "ip-address", "date", "tag", "zzz", ""}
Insts == { [k |-> "null"], [k |-> "true"], [k |-> "int"], [k |-> "float"], [k |-> "arr"], [k |-> "obj"],
           [k |-> "str", s |-> <<97, 64, 98>>], [k |-> "str", s |-> <<97, 98>>], [k |-> "str", s |-> <<49, 46, 50, 46, 51, 46, 52>>],
           [k |-> "str", s |-> <<50, 53, 54, 46, 49, 46, 49, 46, 49>>], [k |-> "str", s |-> <<50, 48, 50, 48, 45, 48, 50, 45, 51, 48>>],
           [k |-> "str", s |-> <<>>] }

Init == /\ base \in Bases
        /\ chk = (IF base = "none" THEN [none |-> TRUE, f |-> <<>>] ELSE [none |-> FALSE, f |-> Builtins(base)])
        /\ regs = <<>> /\ probe = [done |-> FALSE]
        \* early: the validator is constructed with the checker BEFORE the registrations below are made on it (it holds
        \* the checker object, so it follows them); otherwise after
        /\ early \in (IF base \in Customisable THEN BOOLEAN ELSE {FALSE})
Checks(name, beh) ==
  /\ base \in Customisable /\ ~probe.done /\ Len(regs) < MaxRegs
  /\ chk' = [chk EXCEPT !.f = [n \in DOMAIN chk.f \cup {name} |-> IF n = name THEN beh ELSE chk.f[n]]]
  /\ regs' = Append(regs, [name |-> name, beh |-> beh])
  /\ UNCHANGED <<base, probe, early>>
Probe(name, x) == /\ ~probe.done
                  /\ probe' = [done |-> TRUE, name |-> name, x |-> x, out |-> Outcome(chk, name, x)]
                  /\ UNCHANGED <<base, chk, regs, early>>
Next == \/ \E n \in {"tag", "email", ""}, b \in {"truthy", "falsy", "listed", "unlisted", "intonly"} : Checks(n, b)
        \/ \E n \in Names, x \in Insts : Probe(n, x)
Spec == Init /\ [][Next]_vars

\* without a checker format has no effect; unknown names always pass; built-ins pass every non-string
OffWithoutChecker == (probe.done /\ base = "none") => probe.out = "pass"
UnknownPasses == (probe.done /\ ~chk.none /\ probe.name \notin DOMAIN chk.f) => probe.out = "pass"
ExportInv == probe.done => PrintT(ToJson([base |-> base, early |-> early, regs |-> regs, name |-> probe.name, x |-> probe.x, out |-> probe.out]))
=============================================================================
