SPECIFICATION Spec
CONSTANT MaxRegs = 2
INVARIANT OffWithoutChecker
INVARIANT UnknownPasses
INVARIANT ExportInv
CHECK_DEADLOCK FALSE
