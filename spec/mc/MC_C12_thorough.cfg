SPECIFICATION Spec
CONSTANT MaxRegs = 3
INVARIANT OffWithoutChecker
INVARIANT UnknownPasses
INVARIANT ExportInv
CHECK_DEADLOCK FALSE
