------------------------------- MODULE MC_C13 -------------------------------
(***************************************************************************)
(* Mutation machine for C13: the state is (format, string); from the seeds *)
(* (valid and invalid, incl. the alternative ISO 8601 date spellings) the  *)
(* actions Insert, Delete and Subst apply ONE edit with a character of the *)
(* grammar's alphabet or an intruder.  Every reachable string is exported  *)
(* with the recogniser's verdict and replayed on the real format checkers. *)
(***************************************************************************)
EXTENDS FormatGrammar, TLC, Json

CONSTANTS Fmt, MaxEdits
VARIABLES s, edits
vars == <<s, edits>>

T(x) == x
Seeds ==
  CASE Fmt = "ipv4" -> { <<49,46,50,46,51,46,52>>, <<50,53,53,46,50,53,53,46,50,53,53,46,50,53,53>>, <<48,46,48,46,48,46,48>>,
                         <<50,53,54,46,49,46,49,46,49>>, <<49,46,50,46,51>>, <<49,46,50,46,51,46,52,46,53>>, <<49,57,50,46,49,54,56,46,48,46,49>>,
                         <<48,49,46,50,46,51,46,52>>, <<>> }
    [] Fmt = "ipv6" -> { <<58,58>>, <<58,58,49>>, <<49,58,58>>, <<49,58,50,58,51,58,52,58,53,58,54,58,55,58,56>>,
                         <<49,58,58,56>>, <<102,101,56,48,58,58,49>>, <<58,58,49,46,50,46,51,46,52>>,
                         <<49,58,50,58,51,58,52,58,53,58,54,58,49,46,50,46,51,46,52>>, <<49,58,50,58,51,58,52,58,53,58,54,58,55>>,
                         <<49,58,50,58,51,58,52,58,53,58,54,58,55,58,58>>, <<65,66,67,68,58,58,102,102,102,102>>, <<49,50,51,52,53,58,58>> }
    [] Fmt = "date" -> { <<50,48,50,48,45,48,49,45,48,49>>, <<50,48,50,48,45,48,50,45,50,57>>, <<50,48,50,49,45,48,50,45,50,57>>,
                         <<49,57,48,48,45,48,50,45,50,56>>, <<50,48,48,48,45,49,50,45,51,49>>, <<50,48,50,48,45,49,51,45,48,49>>,
                         <<50,48,50,48,48,49,48,49>>, <<50,48,50,48,45,87,48,49,45,49>>, <<50,48,50,48,87,48,49,49>>,
                         <<50,48,50,48,45,87,48,49>>, <<50,48,50,48,45,48,48,49>>, <<50,48,50,48,45,48,52,45,51,49>> }
    [] Fmt = "email" -> { <<97,64,98>>, <<97,98>>, <<64>>, <<>> }
Alphabet ==
  CASE Fmt = "ipv4" -> {48, 49, 50, 53, 54, 57, 46, 32, 43, 45, 97, 58, 1633, 65297, 10}
    [] Fmt = "ipv6" -> {48, 49, 102, 70, 103, 58, 46, 37, 47, 32, 1633, 10}
    [] Fmt = "date" -> {48, 49, 50, 51, 57, 45, 47, 84, 87, 90, 32, 43, 1633, 65297, 10}
    [] Fmt = "email" -> {64, 97, 32}

Init == s \in Seeds /\ edits = 0
Insert(i, c) == edits < MaxEdits /\ i \in 1 .. (Len(s) + 1) /\ s' = SubSeq(s, 1, i - 1) \o <<c>> \o SubSeq(s, i, Len(s)) /\ edits' = edits + 1
Delete(i) == edits < MaxEdits /\ i \in DOMAIN s /\ s' = SubSeq(s, 1, i - 1) \o SubSeq(s, i + 1, Len(s)) /\ edits' = edits + 1
Subst(i, c) == edits < MaxEdits /\ i \in DOMAIN s /\ s[i] # c /\ s' = [s EXCEPT ![i] = c] /\ edits' = edits + 1
Next == \/ \E i \in 1 .. (Len(s) + 1), c \in Alphabet : Insert(i, c)
        \/ \E i \in DOMAIN s : Delete(i)
        \/ \E i \in DOMAIN s, c \in Alphabet : Subst(i, c)
Spec == Init /\ [][Next]_vars
View == s

\* sanity of the recognisers themselves
Sane == /\ (Fmt = "ipv4" => (IsIPv4(s) => \A i \in DOMAIN s : IsDigit(s[i]) \/ s[i] = 46))
        /\ (Fmt = "date" => (IsDate(s) => Len(s) = 10))
        /\ (Fmt = "ipv6" => (IsIPv6(s) => \A i \in DOMAIN s : IsHexDigit(s[i]) \/ s[i] \in {58, 46}))
ExportInv == PrintT(ToJson([f |-> Fmt, s |-> s, ok |-> InGrammar(Fmt, s),
                            claimed |-> (Fmt # "date" \/ DateClaimed(s))]))
=============================================================================
