SPECIFICATION Spec
CONSTANTS
  Fmt = "date"
  MaxEdits = 1
VIEW View
INVARIANT Sane
INVARIANT ExportInv
CHECK_DEADLOCK FALSE
