SPECIFICATION Spec
CONSTANTS
  Fmt = "email"
  MaxEdits = 1
VIEW View
INVARIANT Sane
INVARIANT ExportInv
CHECK_DEADLOCK FALSE
