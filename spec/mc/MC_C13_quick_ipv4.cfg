SPECIFICATION Spec
CONSTANTS
  Fmt = "ipv4"
  MaxEdits = 1
VIEW View
INVARIANT Sane
INVARIANT ExportInv
CHECK_DEADLOCK FALSE
