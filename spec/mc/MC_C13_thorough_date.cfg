SPECIFICATION Spec
CONSTANTS
  Fmt = "date"
  MaxEdits = 2
VIEW View
INVARIANT Sane
INVARIANT ExportInv
CHECK_DEADLOCK FALSE
