SPECIFICATION Spec
CONSTANTS
  Fmt = "email"
  MaxEdits = 2
VIEW View
INVARIANT Sane
INVARIANT ExportInv
CHECK_DEADLOCK FALSE
