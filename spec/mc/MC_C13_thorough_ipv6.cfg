SPECIFICATION Spec
CONSTANTS
  Fmt = "ipv6"
  MaxEdits = 2
VIEW View
INVARIANT Sane
INVARIANT ExportInv
CHECK_DEADLOCK FALSE
