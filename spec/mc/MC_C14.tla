------------------------------- MODULE MC_C14 -------------------------------
(***************************************************************************)
(* Bounded model for C14: a pointer walk.  The state is a location (a      *)
(* path) inside one of a few hostile documents; Descend moves to a child;  *)
(* BadStep tries a reference token that addresses nothing.  Every reached  *)
(* state is exported as (document id, URI fragment, expected result) and   *)
(* replayed through RefResolver.resolve_fragment and through a validation  *)
(* of {"$ref": "#" + fragment}.  Invariants (on the specification itself): *)
(* FragmentOf and ResolveFragment are inverse on every location; the       *)
(* pointer text never contains a raw "/" or "~" coming from a key.         *)
(***************************************************************************)
EXTENDS Pointer, Names, TLC, Json

CONSTANT MaxDepth
VARIABLES doc, path, bad      \* bad: <<>> or <<token>> appended after path (a failing last step)
vars == <<doc, path, bad>>

\* hostile keys: "", "/", "~", "~0", "~1", "~01", "%", "%25", "#", "?", " ", quote, backslash, e-acute, "0", "01",
\* "-1", "a/b", "a~b", non-BMP, "-"
HostileKeys == << <<>>, <<47>>, <<126>>, <<126, 48>>, <<126, 49>>, <<126, 48, 49>>, <<37>>, <<37, 50, 53>>, <<35>>,
                  <<63>>, <<32>>, <<34>>, <<92>>, <<233>>, <<48>>, <<48, 49>>, <<45, 49>>, <<97, 47, 98>>,
                  <<97, 126, 98>>, <<128512>>, <<45>>, <<43, 49>>, <<97>> >>
NK == Len(HostileKeys)
\* every leaf is a schema that accepts exactly one string naming its location: {"enum": ["<i>.<j>"]}
LeafAt(i, j) == JObj(<<K_enum>>, <<JArr(<<JStr(<<65 + i, 46, 65 + j>>)>>)>>)
Inner(i) == JObj(HostileKeys, [j \in 1 .. NK |-> LeafAt(i, j)])
ArrAt(i) == JArr(<<LeafAt(i, 1), JObj(<<HostileKeys[2], HostileKeys[5]>>, <<LeafAt(i, 2), LeafAt(i, 3)>>),
                   JArr(<<LeafAt(i, 4), LeafAt(i, 5)>>), JStr(<<120, 121, 122>>)>>)
Doc1 == JObj(HostileKeys, [i \in 1 .. NK |-> IF i % 3 = 0 THEN ArrAt(i) ELSE IF i % 3 = 1 THEN Inner(i) ELSE LeafAt(i, 0)])
Doc2 == JArr(<<Doc1.v[1], JArr(<<>>), LeafAt(0, 0), JNull, JInt(<<0>>), JStr(<<48>>)>>)
Docs == <<Doc1, Doc2>>

Here == At(Docs[doc], path, 1).v

\* tokens that address nothing in an array / anything in a scalar
BadArrayTokens(n) == { <<45>>, <<45, 49>>, <<48, 49>>, <<43, 49>>, <<32, 49>>, <<49, 95, 48>>, <<49, 46, 48>>,
                       <<1633>>, <<65297>>, <<97>>, <<>>, <<48, 48>>, <<49, 32>>, <<48, 10>>, <<49, 10>>, <<10, 48>>, <<48, 13>>, <<48, 0>> } \cup { DecText(n), DecText(n + 1) }
BadObjectTokens == { <<122, 122>>, <<47, 47>>, <<126, 126>>, <<37, 50, 70>> }
ScalarTokens == { <<48>>, <<>>, <<97>>, <<45, 49>> }

Init == doc \in DOMAIN Docs /\ path = <<>> /\ bad = <<>>
Descend == /\ bad = <<>> /\ Len(path) < MaxDepth
           /\ \/ (IsObj(Here) /\ \E k \in DOMAIN Here.k : path' = Append(path, PS(Here.k[k])))
              \/ (IsArr(Here) /\ \E k \in DOMAIN Here.e : path' = Append(path, PI(k - 1)))
           /\ UNCHANGED <<doc, bad>>
BadStep == /\ bad = <<>>
           /\ \/ (IsArr(Here) /\ \E t \in BadArrayTokens(Len(Here.e)) : bad' = <<t>>)
              \/ (IsObj(Here) /\ \E t \in BadObjectTokens : ~HasKey(Here, t) /\ bad' = <<t>>)
              \/ (~IsObj(Here) /\ ~IsArr(Here) /\ \E t \in ScalarTokens : bad' = <<t>>)
           /\ UNCHANGED <<doc, path>>
Next == Descend \/ BadStep
Spec == Init /\ [][Next]_vars

\* the fragment under test: the location's fragment, plus the failing token (escaped and percent-encoded)
BadText(t) == LET p == <<47>> \o EscapeToken(t) IN FlattenSeq([k \in DOMAIN p |-> PctEncodeChar(p[k])])
Frag == FragmentOf(path) \o (IF bad = <<>> THEN <<>> ELSE BadText(bad[1]))
Expect == ResolveFragment(Docs[doc], Frag)

RoundTrip == bad = <<>> => (Expect.dom /\ Expect.ok /\ Expect.v = Here)
FailsCleanly == bad # <<>> => (Expect.dom /\ ~Expect.ok)
\* the fragment is pure ASCII from the fragment-safe set or percent escapes
WellFormedFragment == \A k \in DOMAIN Frag : FragmentSafe(Frag[k]) \/ Frag[k] = 37

ASSUME PrintT(ToJson([docs |-> Docs]))
ExportInv == PrintT(ToJson([d |-> doc, frag |-> Frag, ok |-> Expect.ok, v |-> IF Expect.ok THEN Expect.v ELSE JNull]))
=============================================================================
