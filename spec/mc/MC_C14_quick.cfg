SPECIFICATION Spec
CONSTANT MaxDepth = 3
INVARIANT RoundTrip
INVARIANT FailsCleanly
INVARIANT WellFormedFragment
INVARIANT ExportInv
CHECK_DEADLOCK FALSE
