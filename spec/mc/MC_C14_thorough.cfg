SPECIFICATION Spec
CONSTANT MaxDepth = 5
INVARIANT RoundTrip
INVARIANT FailsCleanly
INVARIANT WellFormedFragment
INVARIANT ExportInv
CHECK_DEADLOCK FALSE
