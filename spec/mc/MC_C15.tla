------------------------------- MODULE MC_C15 -------------------------------
(***************************************************************************)
(* Bounded model for C15: all histories of <= MaxOps resolutions over two  *)
(* remote documents, one store document and one bundled metaschema, every  *)
(* URL spelling, for one configuration (cache_remote, cache kind, handler  *)
(* modes).  `hist` records each operation with the model's expected        *)
(* observation (answer, documents fetched so far, store) so that every     *)
(* behaviour can be replayed on a real resolver.                           *)
(* AnswersTransparent: the answer to a resolution does not depend on the   *)
(* configuration or the history -- only on the URL and on whether the      *)
(* handler fails at that moment.                                           *)
(***************************************************************************)
EXTENDS Resolver, TLC, Json

CONSTANTS MaxOps, HM1, HM2
VARIABLE hist
vars == <<store, ucache, fetches, pending, hist>>

RemoteSet == {"r1", "r2"}
LocalSet  == {"s", "t", "meta"}      \* t: a store document whose key carries a trailing "#"
NoPtrSet  == {"r2"}                  \* r2 is an empty (falsy) document
HModeDef  == [d \in RemoteSet |-> IF d = "r1" THEN HM1 ELSE HM2]

Init == RInit /\ hist = <<>>
Step(u) == /\ Len(hist) < MaxOps
           /\ \E res \in {"ok", "referror"} :
                /\ Resolve(u, res)
                /\ hist' = Append(hist, [doc |-> u.doc, frag |-> u.frag, res |-> res,
                                         nfetch |-> IF CacheRemote THEN Len(fetches') ELSE -1, store |-> store'])
Next == \E u \in Urls : Step(u)
Spec == Init /\ [][Next]_vars

\* a resolution answers "ok" iff the fragment exists and the document is available (store, cache or a
\* non-failing handler): independent of cache_remote / cache kind
AnswersTransparent ==
  [][ \A u \in Urls : (Len(hist') = Len(hist) + 1 /\ hist'[Len(hist')].doc = u.doc /\ hist'[Len(hist')].frag = u.frag) =>
        LET res == hist'[Len(hist')].res
            avail == u.doc \in store \/ u \in ucache \/ EquivHit(St, u) \/ ~(HMode[u.doc] = "fail" \/ u.doc \in pending)
        IN  res = (IF avail THEN Answer(Cfg, u) ELSE "referror") ]_vars

ExportInv == Len(hist) = MaxOps => PrintT(ToJson([h |-> hist]))
=============================================================================
