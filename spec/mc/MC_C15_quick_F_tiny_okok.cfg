SPECIFICATION Spec
CONSTANTS
  RemoteDocs <- RemoteSet
  LocalDocs <- LocalSet
  CacheRemote = FALSE
  CacheKind = "tiny"
  HMode <- HModeDef
  NoPtr <- NoPtrSet
  HM1 = "ok"
  HM2 = "ok"
  MaxOps = 3
INVARIANT FetchOnce
INVARIANT StoreStable
INVARIANT LocalNeverFetched
INVARIANT StoreSound
INVARIANT ExportInv
PROPERTY AnswersTransparent
CHECK_DEADLOCK FALSE
