SPECIFICATION Spec
CONSTANTS
  RemoteDocs <- RemoteSet
  LocalDocs <- LocalSet
  CacheRemote = TRUE
  CacheKind = "lru"
  HMode <- HModeDef
  NoPtr <- NoPtrSet
  HM1 = "fail"
  HM2 = "failonce"
  MaxOps = 3
INVARIANT FetchOnce
INVARIANT StoreStable
INVARIANT LocalNeverFetched
INVARIANT StoreSound
INVARIANT ExportInv
PROPERTY AnswersTransparent
CHECK_DEADLOCK FALSE
