------------------------------- MODULE MC_C16 -------------------------------
(***************************************************************************)
(* All sequences of <= MaxOps derivation operations starting from the four *)
(* draft classes, their type checkers and one default FormatChecker.       *)
(* Action property Undisturbed: an operation leaves the behaviour of every *)
(* existing object unchanged, except the one object (or the class-wide     *)
(* registry) that an in-place operation names.  Every maximal history is   *)
(* exported with the behaviour table of every live object after each step. *)
(***************************************************************************)
EXTENDS Registry, Json

CONSTANTS MaxOps, Base      \* Base: the draft class index (1..4) the operations start from

DraftNo(i) == CASE i = 1 -> 3 [] i = 2 -> 4 [] i = 3 -> 6 [] i = 4 -> 7
Init == /\ tcs = [i \in 1 .. 4 |-> StdTc(DraftNo(i))]
        /\ cls = [i \in 1 .. 4 |-> [kw |-> {}, tc |-> i, idkw |-> IF i <= 2 THEN "id" ELSE "$id", meta |-> "std",
                                        vt |-> CASE i = 1 -> 3 [] i = 2 -> 4 [] i = 3 -> 6 [] i = 4 -> 7]]
        /\ vals = <<>>
        /\ fcs = << [x \in {"email"} |-> "builtin"] >>
        /\ clsFormats = [x \in {"email"} |-> "builtin"]
        /\ byName = [x \in {"draft3", "draft4", "draft6", "draft7"} |-> CASE x = "draft3" -> 1 [] x = "draft4" -> 2 [] x = "draft6" -> 3 [] x = "draft7" -> 4]
        /\ byId = [x \in {"std3", "std4", "std6", "std7"} |-> CASE x = "std3" -> 1 [] x = "std4" -> 2 [] x = "std6" -> 3 [] x = "std7" -> 4]
        /\ hist = <<>>

Mine(S) == { x \in S : x = Base \/ x > 4 }          \* the base draft's objects and everything derived
Next ==
  /\ Len(hist) < MaxOps
  /\ \/ \E t \in Mine(DOMAIN tcs) : \/ Redefine(t, "integer", "strint") \/ Redefine(t, "newtype", "never") \/ Remove(t, "string")
     \/ \E c \in Mine(DOMAIN cls) : \/ Extend(c, {}, 0) \/ Extend(c, {"override-minimum"}, 0) \/ Extend(c, {"add-xnew"}, 0)
                                    \/ (\E t \in Mine(DOMAIN tcs) \ {cls[c].tc} : Extend(c, {}, t))
                                    \/ Create(c, "", "") \/ ("vnew" \notin DOMAIN byName /\ Create(c, "vnew", NewMetaId))     \* fresh ids only
                                    \/ NewValidator(c, FALSE) \/ NewValidator(c, TRUE)
     \* extend() with nothing to change, of ANY class (also the other drafts'): one process, several parents
     \/ \E c \in 1 .. 4 : c # Base /\ Extend(c, {}, 0)
     \/ \E f \in DOMAIN fcs : Checks(f, "tag", "even") \/ Checks(f, "email", "odd")
     \/ ClsChecks("tag", "odd") \/ ClsChecks("tag2", "even")
     \/ NewFormatChecker({}) \/ NewFormatChecker({"email", "tag"})
Spec == Init /\ [][Next]_rvars

\* the objects that existed before keep their behaviour, except the format checker named by Checks
Undisturbed ==
  [][ LET b == Beh  b2 == Beh'
          op == hist'[Len(hist')].o IN
      /\ \A t \in DOMAIN tcs : b2.tc[t] = b.tc[t]
      /\ \A c \in DOMAIN cls : b2.cls[c] = b.cls[c]
      /\ \A v \in DOMAIN vals : b2.val[v] = b.val[v]
      /\ \A f \in DOMAIN fcs : (op.op = "checks" /\ op.f = f) \/ b2.fc[f] = b.fc[f]
      /\ \A n \in DOMAIN byName : byName'[n] = byName[n]
      /\ \A i \in DOMAIN byId : byId'[i] = byId[i] ]_rvars
\* extend() with no changes behaves as its parent, including where it looks for schema ids
ExtendIdentity == \A i \in DOMAIN hist : (hist[i].o.op = "extend" /\ hist[i].o.feats = {} /\ hist[i].o.t = 0) =>
                     Beh.cls[hist[i].o.new] = Beh.cls[hist[i].o.c]

ExportInv == Len(hist) = MaxOps =>
  PrintT(ToJson([base |-> Base, hist |-> hist, beh |-> Beh,
                 byName |-> [n \in DOMAIN byName |-> byName[n]], byId |-> [n \in DOMAIN byId |-> byId[n]]]))
=============================================================================
