SPECIFICATION Spec
CONSTANTS
  MaxOps = 3
  Base = 1
INVARIANT ExtendIdentity
INVARIANT ExportInv
PROPERTY Undisturbed
CHECK_DEADLOCK FALSE
