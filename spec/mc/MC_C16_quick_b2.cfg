SPECIFICATION Spec
CONSTANTS
  MaxOps = 3
  Base = 2
INVARIANT ExtendIdentity
INVARIANT ExportInv
PROPERTY Undisturbed
CHECK_DEADLOCK FALSE
