SPECIFICATION Spec
CONSTANTS
  MaxOps = 3
  Base = 3
INVARIANT ExtendIdentity
INVARIANT ExportInv
PROPERTY Undisturbed
CHECK_DEADLOCK FALSE
