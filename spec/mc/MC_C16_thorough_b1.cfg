SPECIFICATION Spec
CONSTANTS
  MaxOps = 4
  Base = 1
INVARIANT ExtendIdentity
INVARIANT ExportInv
PROPERTY Undisturbed
CHECK_DEADLOCK FALSE
