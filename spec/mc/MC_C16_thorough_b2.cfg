SPECIFICATION Spec
CONSTANTS
  MaxOps = 4
  Base = 2
INVARIANT ExtendIdentity
INVARIANT ExportInv
PROPERTY Undisturbed
CHECK_DEADLOCK FALSE
