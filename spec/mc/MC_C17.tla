------------------------------- MODULE MC_C17 -------------------------------
(***************************************************************************)
(* All arrival orders of all error collections of <= MaxErrs errors over   *)
(* paths of length <= MaxPath through object keys and array indices and    *)
(* three keywords (repeated (path, keyword) pairs included): the tree is   *)
(* built incrementally (AddError) and after every step must agree with the *)
(* declarative meaning.  Final states are exported for replay.             *)
(***************************************************************************)
EXTENDS ErrorTree, TLC, Json

CONSTANTS MaxErrs, MaxPath
VARIABLES tree, added, order
vars == <<tree, added, order>>

Kws == {"type", "required", "minimum"}
\* mixed key types inside one path are modelled with tagged elements
\* "a.b" and "a[0]" are single keys that LOOK like nested locations in dotted / bracketed renderings of a path
El == { [s |-> "a"], [s |-> "b"], [i |-> 0], [s |-> "a.b"], [s |-> "a[0]"] }
TPaths == UNION { [1 .. n -> El] : n \in 0 .. MaxPath }
Errors == { [p |-> p, kw |-> k] : p \in TPaths, k \in Kws }

Init == tree = EmptyNode /\ added = {} /\ order = <<>>
AddError(e) == /\ Len(order) < MaxErrs
               /\ tree' = AddTo(tree, e.p, 1, e.kw)
               /\ added' = added \cup {e}
               /\ order' = Append(order, e)
Next == \E e \in Errors : AddError(e)
Spec == Init /\ [][Next]_vars

Refines == \A p \in PathPrefixes(added) \cup {<<>>} :
             LET n == NodeAt(tree, p, 1) IN
             /\ n.errs = KwsAt(added, p)
             /\ DOMAIN n.kids = ChildKeys(added, p)
             /\ NodeTotal(n) = Total(added, p)
\* every added error is found by walking its path, under its keyword
Findable == \A e \in added : e.kw \in NodeAt(tree, e.p, 1).errs
\* the tree does not depend on the order of arrival
OrderFree == [][ \A e \in Errors : (order' = Append(order, e) /\ e \in added) => tree' = tree ]_vars

ExportInv == Len(order) = MaxErrs => PrintT(ToJson([order |-> order]))
=============================================================================
