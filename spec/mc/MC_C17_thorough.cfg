SPECIFICATION Spec
CONSTANTS
  MaxErrs = 3
  MaxPath = 2
INVARIANT Refines
INVARIANT Findable
INVARIANT ExportInv
PROPERTY OrderFree
CHECK_DEADLOCK FALSE
