------------------------------- MODULE MC_C19 -------------------------------
(***************************************************************************)
(* The CLI run loop as a state machine whose reachable final states are    *)
(* all runs: Init chooses the schema state, the instance list (<= MaxN) and*)
(* the output mode; LoadSchema / CheckSchema / Instance(k) / Return are the*)
(* steps.  Invariants at the end: exit status 0 iff everything succeeded   *)
(* (whatever the ORDER of good and bad instances), every instance was      *)
(* processed.  Action property: the exit code never goes back to 0.        *)
(***************************************************************************)
EXTENDS Cli, TLC, Json

CONSTANT MaxN
VARIABLES schema, insts, pretty, pc, k, st
vars == <<schema, insts, pretty, pc, k, st>>

K(kk, nn) == [k |-> kk, n |-> nn]
Kinds == {K("missing", 0), K("notjson", 0), K("valid", 0), K("invalid", 1), K("invalid", 2)}
Init == /\ schema \in {"missing", "notjson", "invalid", "valid"}
        /\ insts \in UNION { [1 .. n -> Kinds] : n \in 1 .. MaxN }    \* (no -i at all means: one instance on stdin)
        /\ pretty \in BOOLEAN
        /\ pc = "loadschema" /\ k = 1 /\ st = St0

LoadSchema == /\ pc = "loadschema"
              /\ IF schema \in {"missing", "notjson"}
                 THEN st' = CliRun(schema, insts, pretty) /\ pc' = "done"
                 ELSE st' = st /\ pc' = "check"
              /\ UNCHANGED <<schema, insts, pretty, k>>
CheckSchema == /\ pc = "check"
               /\ IF schema = "invalid" THEN st' = CliRun(schema, insts, pretty) /\ pc' = "done"
                  ELSE st' = st /\ pc' = "inst"
               /\ UNCHANGED <<schema, insts, pretty, k>>
Instance == /\ pc = "inst" /\ k <= Len(insts)
            /\ st' = StepInst(st, k, insts[k], pretty) /\ k' = k + 1
            /\ UNCHANGED <<schema, insts, pretty, pc>>
Return == /\ pc = "inst" /\ k > Len(insts) /\ pc' = "done"
          /\ UNCHANGED <<schema, insts, pretty, k, st>>
Next == LoadSchema \/ CheckSchema \/ Instance \/ Return
Spec == Init /\ [][Next]_vars

AtEnd == pc = "done" => /\ ExitZeroIff(schema, insts, st)
                        /\ EveryInstanceProcessed(schema, insts, st)
                        /\ st = CliRun(schema, insts, pretty)
CodeMonotone == [][ st.code = 1 => st'.code = 1 ]_vars
PlainStdoutEmpty == ~pretty => st.out = <<>>
ExportInv == pc = "done" => PrintT(ToJson([schema |-> schema, insts |-> insts, pretty |-> pretty, code |-> st.code,
                                           err |-> st.err, out |-> st.out]))
=============================================================================
