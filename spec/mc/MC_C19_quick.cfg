SPECIFICATION Spec
CONSTANT MaxN = 2
INVARIANT AtEnd
INVARIANT PlainStdoutEmpty
INVARIANT ExportInv
PROPERTY CodeMonotone
CHECK_DEADLOCK FALSE
