SPECIFICATION Spec
CONSTANT MaxN = 3
INVARIANT AtEnd
INVARIANT PlainStdoutEmpty
INVARIANT ExportInv
PROPERTY CodeMonotone
CHECK_DEADLOCK FALSE
