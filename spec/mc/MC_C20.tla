------------------------------- MODULE MC_C20 -------------------------------
(***************************************************************************)
(* Draft selection from $schema (C20): sequences of <= MaxReg later        *)
(* registrations (create(version=...) from the tables of a draft class,    *)
(* under fresh metaschema ids), then a query validator_for(schema,         *)
(* default) for every spelling of $schema: each registered id with and     *)
(* without a trailing "#", a registered id followed by a NON-empty         *)
(* fragment, an unknown URI, a non-URI string, absent, boolean schema.     *)
(* Invariants: existing registrations are never disturbed; a class         *)
(* registered later is selectable by its own id.                           *)
(***************************************************************************)
EXTENDS Registry, Json

CONSTANT MaxReg
VARIABLES query
vars == <<tcs, cls, vals, fcs, clsFormats, byName, byId, hist, query>>

Init == /\ tcs = [i \in 1 .. 4 |-> StdTc(CASE i = 1 -> 3 [] i = 2 -> 4 [] i = 3 -> 6 [] i = 4 -> 7)]
        /\ cls = [i \in 1 .. 4 |-> [kw |-> {}, tc |-> i, idkw |-> IF i <= 2 THEN "id" ELSE "$id", meta |-> "std",
                                        vt |-> CASE i = 1 -> 3 [] i = 2 -> 4 [] i = 3 -> 6 [] i = 4 -> 7]]
        /\ vals = <<>> /\ fcs = <<>> /\ clsFormats = <<>>
        /\ byName = [x \in {"draft3", "draft4", "draft6", "draft7"} |-> CASE x = "draft3" -> 1 [] x = "draft4" -> 2 [] x = "draft6" -> 3 [] x = "draft7" -> 4]
        /\ byId = [x \in {"std3", "std4", "std6", "std7"} |-> CASE x = "std3" -> 1 [] x = "std4" -> 2 [] x = "std6" -> 3 [] x = "std7" -> 4]
        /\ hist = <<>> /\ query = [done |-> FALSE]

NewIds == <<"new1", "new2", "new3">>
\* the version NAME may be one that an earlier registration used (the name then designates the new class; the earlier
\* class stays selectable by its own metaschema id)
Register(c, ver) == /\ ~query.done /\ Len(hist) < MaxReg
                    /\ Create(c, ver, NewIds[Len(hist) + 1])
                    /\ UNCHANGED query
Spellings == { [base |-> b, suf |-> s] : b \in {"std3", "std4", "std6", "std7", "new1", "new2", "new3", "unknown", "nonuri"}, s \in {"", "#", "#/definitions/x"} }
             \cup { [base |-> "absent", suf |-> ""], [base |-> "boolean", suf |-> ""] }
\* the registry key a spelling normalises to: an empty fragment is dropped, anything else is part of the key
KeyOf(sp) == IF sp.suf \in {"", "#"} THEN sp.base ELSE sp.base \o sp.suf
Query(sp, dflt) ==
  /\ ~query.done
  /\ LET r == IF sp.base \in {"absent", "boolean"} THEN [c |-> dflt, warn |-> FALSE] ELSE ValidatorFor(KeyOf(sp), dflt) IN
     query' = [done |-> TRUE, sp |-> sp, dflt |-> dflt, c |-> r.c, warn |-> r.warn]
  /\ UNCHANGED rvars
Next == \/ \E c \in 1 .. 4, ver \in {"house style", "other style"} : Register(c, ver)
        \/ \E sp \in Spellings, dflt \in {Latest, 1} : Query(sp, dflt)
Spec == Init /\ [][Next]_vars

ExistingKept == /\ \A i \in 1 .. 4 : byId[CASE i = 1 -> "std3" [] i = 2 -> "std4" [] i = 3 -> "std6" [] i = 4 -> "std7"] = i
                /\ \A i \in DOMAIN hist : byId[hist[i].o.metaid] = hist[i].o.new
LaterSelectable == \A i \in DOMAIN hist : ValidatorFor(hist[i].o.metaid, Latest).c = hist[i].o.new
ExportInv == query.done => PrintT(ToJson([regs |-> [i \in DOMAIN hist |-> hist[i].o], q |-> query]))
=============================================================================
