SPECIFICATION Spec
CONSTANT MaxReg = 2
INVARIANT ExistingKept
INVARIANT LaterSelectable
INVARIANT ExportInv
CHECK_DEADLOCK FALSE
