SPECIFICATION Spec
CONSTANT MaxReg = 3
INVARIANT ExistingKept
INVARIANT LaterSelectable
INVARIANT ExportInv
CHECK_DEADLOCK FALSE
