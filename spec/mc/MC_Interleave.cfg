SPECIFICATION Spec
CONSTANTS
  NoFinally = FALSE
  SharedStack = FALSE
INVARIANT Independent
INVARIANT Restored
INVARIANT ExportInv
CHECK_DEADLOCK FALSE
