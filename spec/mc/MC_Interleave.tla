---------------------------- MODULE MC_Interleave ----------------------------
(***************************************************************************)
(* C18: error iterators of DIFFERENT validator objects (each with its own  *)
(* resolver, hence its own scope stack) advanced in every interleaving.    *)
(* SCEN_FILE: a sequence of groups; a group is a sequence of 2 or 3        *)
(* members [base, script] (one iterator each; scripts measured on the real *)
(* code).  Actions: Advance(n) runs member n to its next yield.            *)
(* Invariant Independent: what each iterator has produced is a prefix of   *)
(* its solo run.  SharedStack = TRUE is the negative control: all members  *)
(* use one scope stack (a resolver shared behind their backs).             *)
(* Every maximal schedule is exported and replayed on real iterators.      *)
(***************************************************************************)
EXTENDS Iterators, Json, IOUtils

CONSTANTS SharedStack
Groups == JsonDeserialize(IOEnv.SCEN_FILE)

VARIABLES g, stacks, its, sched
vars == <<g, stacks, its, sched>>

N == Len(Groups[g])
Init == /\ g \in DOMAIN Groups
        /\ stacks = [n \in 1 .. Len(Groups[g]) |-> <<Groups[g][IF SharedStack THEN 1 ELSE n].base>>]
        /\ its = [n \in 1 .. Len(Groups[g]) |-> [pc |-> 1, open |-> 0, out |-> <<>>, status |-> "fresh"]]
        /\ sched = <<>>

StackOf(n) == stacks[IF SharedStack THEN 1 ELSE n]
Advance(n) ==
  /\ its[n].status \in {"fresh", "suspended"}
  /\ LET r == RunFrom(Groups[g][n].script, [stack |-> StackOf(n), pc |-> its[n].pc, open |-> its[n].open,
                                           out |-> its[n].out, status |-> its[n].status], 1) IN
     /\ stacks' = [stacks EXCEPT ![IF SharedStack THEN 1 ELSE n] = r.stack]
     /\ its' = [its EXCEPT ![n] = [pc |-> r.pc, open |-> r.open, out |-> r.out, status |-> r.status]]
  /\ sched' = Append(sched, n)
  /\ UNCHANGED g
Next == \E n \in 1 .. N : Advance(n)
Spec == Init /\ [][Next]_vars

Independent == \A n \in 1 .. N : IsPrefix(its[n].out, Solo(Groups[g][n].base, Groups[g][n].script).out)
AllDone == \A n \in 1 .. N : its[n].status \in {"done", "raised"}
\* at the end every scope stack is back to its base
Restored == AllDone => \A n \in 1 .. N : SharedStack \/ stacks[n] = <<Groups[g][n].base>>
ExportInv == AllDone => PrintT(ToJson([g |-> g, sched |-> sched, outs |-> [n \in 1 .. N |-> its[n].out]]))
=============================================================================
