SPECIFICATION Spec
CONSTANTS
  NoFinally = FALSE
  SharedStack = TRUE
INVARIANT Independent
CHECK_DEADLOCK FALSE
