------------------------------- MODULE MC_Iter -------------------------------
(***************************************************************************)
(* Protocol model for C07 (design-level, independent of any concrete       *)
(* schema): ALL well-nested scripts of <= MaxLen events over               *)
(*   {push absolute scope, push relative scope, pop, resolve (observes the *)
(*    scope), yield, failing resolve}                                      *)
(* x all histories of <= MaxOps operations (start / advance / close /      *)
(* forget) on up to two iterators of ONE validator.                        *)
(* Invariants: ScopeRestored (whenever no iterator is suspended the scope  *)
(* stack is what it was before the first call), Balanced, HistoryFree      *)
(* (what an iterator produces is a prefix of its solo run).                *)
(* Negative controls (must be violated): NoFinally = TRUE;                 *)
(* AllowReentry = TRUE (advancing an iterator while another iterator of    *)
(* the same validator is suspended: the documented hazard);                *)
(* CloseUnwinds = FALSE (the clean-up runs when a resolution raises but    *)
(* not when a suspended iterator is closed or dropped -- `except           *)
(* Exception` where `finally` is needed: closing raises GeneratorExit,     *)
(* which is no Exception).                                                 *)
(***************************************************************************)
EXTENDS Iterators

CONSTANTS AllowReentry, CloseUnwinds, MaxLen, MaxOps
VARIABLES stack, its, nops
vars == <<stack, its, nops>>

T(s) == s
BaseScope == <<104,116,116,112,58,47,47,98,46,105,110,118,97,108,105,100,47,114,46,106,115,111,110>>   \* http://b.invalid/r.json
AbsScope  == <<104,116,116,112,58,47,47,97,46,105,110,118,97,108,105,100,47,120,47>>                   \* http://a.invalid/x/
RelScope  == <<115,117,98,47>>                                                                          \* sub/
RefOK     == <<116,46,106,115,111,110>>                                                                 \* t.json
RefBad    == <<110,111,112,101>>                                                                        \* nope
Alphabet == { [e |-> "push", a |-> AbsScope], [e |-> "push", a |-> RelScope], [e |-> "pop"],
              [e |-> "res", a |-> RefOK, ok |-> TRUE], [e |-> "yield", a |-> 1], [e |-> "res", a |-> RefBad, ok |-> FALSE] }
Scripts == { s \in UNION { [1 .. n -> Alphabet] : n \in 0 .. MaxLen } : WellNested(s) }

Null == [status |-> "none"]
Ids == {1, 2}

Init == stack = <<BaseScope>> /\ its = [n \in Ids |-> Null] /\ nops = 0

Start(n, s) == /\ its[n] = Null /\ nops < MaxOps
               /\ its' = [its EXCEPT ![n] = [s |-> s, pc |-> 1, open |-> 0, out |-> <<>>, status |-> "fresh"]]
               /\ nops' = nops + 1 /\ UNCHANGED stack     \* creating a generator runs no code
Advance(n) == /\ its[n].status \in {"fresh", "suspended"} /\ nops < MaxOps
              /\ (AllowReentry \/ \A m \in Ids \ {n} : its[m].status # "suspended")
              /\ LET r == RunFrom(its[n].s, [stack |-> stack, pc |-> its[n].pc, open |-> its[n].open,
                                             out |-> its[n].out, status |-> its[n].status], 1) IN
                 /\ stack' = r.stack
                 /\ its' = [its EXCEPT ![n] = [s |-> its[n].s, pc |-> r.pc, open |-> r.open, out |-> r.out, status |-> r.status]]
              /\ nops' = nops + 1
Close(n) == /\ its[n].status = "suspended" /\ nops < MaxOps
            /\ stack' = IF CloseUnwinds THEN Unwind(stack, its[n].open) ELSE stack
            /\ its' = [its EXCEPT ![n] = [@ EXCEPT !.status = "closed", !.open = 0]]
            /\ nops' = nops + 1
Forget(n) == /\ its[n].status \in {"done", "closed", "raised"}
             /\ its' = [its EXCEPT ![n] = Null] /\ UNCHANGED <<stack, nops>>
Next == \E n \in Ids : (\E s \in Scripts : Start(n, s)) \/ Advance(n) \/ Close(n) \/ Forget(n)
Spec == Init /\ [][Next]_vars

Suspended == { n \in Ids : its[n].status = "suspended" }
ScopeRestored == Suspended = {} => stack = <<BaseScope>>
Balanced == Cardinality(Suspended) <= 1 =>
              Len(stack) = 1 + (IF Suspended = {} THEN 0 ELSE its[CHOOSE n \in Suspended : TRUE].open)
HistoryFree == \A n \in Ids : its[n] = Null \/ IsPrefix(its[n].out, Solo(BaseScope, its[n].s).out)
=============================================================================
