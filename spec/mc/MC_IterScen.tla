----------------------------- MODULE MC_IterScen -----------------------------
(***************************************************************************)
(* Histories of operations on ONE validator object over measured scripts   *)
(* (C07).  SCEN_FILE holds scenarios; each has a base scope and, for every *)
(* instance, the script of its complete iteration, measured from a fresh   *)
(* run of the real code with a tracing resolver, in two handler modes      *)
(* ("fail": a retrieval handler currently fails; "ok").  The scripts carry *)
(* the scope the real resolver reported after each event; Conforms checks  *)
(* that the model (Uri!ResolveText on the scope stack) reproduces them.    *)
(* TLC enumerates every history of <= MaxOps operations                    *)
(*   exhaust(i) | first(i) (is_valid / validate) | take k then close(i,k)  *)
(*   | resolve(ref) directly | toggle the handler from failing to ok       *)
(* executes the model and records the expected outputs; the invariant      *)
(* ScopeRestored and the action property HistoryFree are checked on the    *)
(* model, and every maximal history is replayed on a real validator.       *)
(***************************************************************************)
EXTENDS Iterators, Json, IOUtils

CONSTANTS MaxOps
Scens == JsonDeserialize(IOEnv.SCEN_FILE)

VARIABLES sc, stack, mode, hist
vars == <<sc, stack, mode, hist>>

Script(i) == IF mode = "fail" THEN Scens[sc].fail[i] ELSE Scens[sc].ok[i]
NInst == Len(Scens[sc].ok)
Base == Scens[sc].base

\* the model reproduces the scopes and URLs the real resolver reported (code -> spec conformance of the scripts)
\* URL texts are compared as (document part, fragment) with an absent and an empty fragment identified: whether a
\* join keeps a bare trailing "#" is presentation, not designation
SameUrl(x, y) == Defrag(x) = Defrag(y)
RECURSIVE ConformsFrom(_, _, _)
ConformsFrom(script, k, st) ==
  IF k > Len(script) THEN TRUE
  ELSE LET ev == script[k] IN
       CASE ev.e = "push" -> LET t == ResolveText(Top(st), ev.a) IN SameUrl(t, ev.top) /\ ConformsFrom(script, k + 1, Append(st, t))
         [] ev.e = "pop"  -> Len(st) > 1 /\ SameUrl(Top(Front(st)), ev.top) /\ ConformsFrom(script, k + 1, Front(st))
         [] ev.e = "res"  -> (ev.ok => SameUrl(ResolveText(Top(st), ev.a), ev.url)) /\ ConformsFrom(script, k + 1, st)
         [] ev.e = "yield" -> ConformsFrom(script, k + 1, st)
Conforms(s) == \A i \in DOMAIN Scens[s].ok :
                 /\ WellNested(Scens[s].ok[i]) /\ ConformsFrom(Scens[s].ok[i], 1, <<Scens[s].base>>)
                 /\ WellNested(Scens[s].fail[i]) /\ ConformsFrom(Scens[s].fail[i], 1, <<Scens[s].base>>)

\* toggling the handler is free: a history has <= MaxOps operations plus at most one toggle anywhere before the last
NOps == Cardinality({n \in DOMAIN hist : hist[n].op # "toggle"})
Init == sc \in DOMAIN Scens /\ stack = <<Scens[sc].base>> /\ mode = Scens[sc].mode0 /\ hist = <<>>

Rec(op, i, k, r) == [op |-> op, i |-> i, k |-> k, out |-> r.out, status |-> r.status, restored |-> r.stack = <<Base>>]
RunOp(op, i, k) ==
  LET r0 == RunFrom(Script(i), Fresh(stack), k)
      r  == CloseIt(r0) IN
  /\ NOps < MaxOps
  /\ stack' = r.stack
  /\ hist' = Append(hist, Rec(op, i, k, r))
  /\ UNCHANGED <<sc, mode>>
Exhaust(i)      == RunOp("exhaust", i, -1)
First(i)        == RunOp("first", i, 1)
TakeClose(i, k) == RunOp("take", i, k)
ResolveDirect(j) == /\ NOps < MaxOps
                    /\ hist' = Append(hist, [op |-> "resolve", i |-> j, k |-> 0,
                                             out |-> <<[k |-> "res", v |-> ResolveText(Top(stack), Scens[sc].refs[j])]>>,
                                             status |-> "done", restored |-> stack = <<Base>>])
                    /\ UNCHANGED <<sc, stack, mode>>
\* the public context managers: `with resolver.in_scope(scope): resolver.resolve(ref)` and
\* `with resolver.resolving(ref): resolver.resolve("#")` -- the body may raise; the scope is popped in a finally
ScopeArg == <<115, 117, 98, 47, 100, 105, 114, 47>>        \* "sub/dir/"
InScopeOp(j) == /\ NOps < MaxOps
                /\ hist' = Append(hist, [op |-> "inscope", i |-> j, k |-> 0,
                                         out |-> <<[k |-> "res", v |-> ResolveText(ResolveText(Top(stack), ScopeArg), Scens[sc].refs[j])]>>,
                                         status |-> "done", restored |-> stack = <<Base>>])
                /\ UNCHANGED <<sc, stack, mode>>
ResolvingOp(j) == /\ NOps < MaxOps
                  /\ LET u == ResolveText(Top(stack), Scens[sc].refs[j])
                         \* whether the reference resolves at all (measured on a fresh resolver, per handler mode): if not,
                         \* resolving() raises before the body runs
                         ok == IF mode = "fail" THEN Scens[sc].refokfail[j] ELSE Scens[sc].refok[j] IN
                     hist' = Append(hist, [op |-> "resolving", i |-> j, k |-> 0,
                                           out |-> IF ok THEN <<[k |-> "res", v |-> u], [k |-> "res", v |-> ResolveText(u, <<35>>)]>>
                                                   ELSE <<[k |-> "res", v |-> u]>>,
                                           status |-> "done", restored |-> stack = <<Base>>])
                  /\ UNCHANGED <<sc, stack, mode>>
Toggle == /\ mode = "fail" /\ NOps < MaxOps /\ mode' = "ok"
          /\ hist' = Append(hist, [op |-> "toggle", i |-> 0, k |-> 0, out |-> <<>>, status |-> "done", restored |-> stack = <<Base>>])
          /\ UNCHANGED <<sc, stack>>
Next == \/ \E i \in 1 .. NInst : Exhaust(i) \/ First(i) \/ TakeClose(i, 2)
        \/ \E j \in DOMAIN Scens[sc].refs : ResolveDirect(j) \/ InScopeOp(j) \/ ResolvingOp(j)
        \/ Toggle
Spec == Init /\ [][Next]_vars

AllConform == Conforms(sc)
ScopeRestored == stack = <<Base>>
\* the outputs of an operation are those of the same operation on a fresh validator (in the current handler mode)
HistoryFree == [][ (Len(hist') = Len(hist) + 1 /\ hist'[Len(hist')].op \in {"exhaust", "first", "take"}) =>
                     LET h == hist'[Len(hist')] IN
                     h.out = CloseIt(RunFrom(Script(h.i), Fresh(<<Base>>), h.k)).out /\ h.restored ]_vars
ExportInv == NOps = MaxOps => PrintT(ToJson([sc |-> sc, h |-> hist]))
=============================================================================
