SPECIFICATION Spec
CONSTANTS
  NoFinally = FALSE
  MaxOps = 3
INVARIANT AllConform
INVARIANT ScopeRestored
INVARIANT ExportInv
PROPERTY HistoryFree
CHECK_DEADLOCK FALSE
