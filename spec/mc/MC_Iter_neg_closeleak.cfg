SPECIFICATION Spec
CONSTANTS
  NoFinally = FALSE
  CloseUnwinds = FALSE
  AllowReentry = FALSE
  MaxLen = 3
  MaxOps = 4
INVARIANT ScopeRestored
INVARIANT Balanced
INVARIANT HistoryFree
CHECK_DEADLOCK FALSE
