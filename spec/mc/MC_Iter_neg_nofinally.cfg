SPECIFICATION Spec
CONSTANTS
  NoFinally = TRUE
  CloseUnwinds = TRUE
  AllowReentry = FALSE
  MaxLen = 3
  MaxOps = 4
INVARIANT ScopeRestored
INVARIANT Balanced
INVARIANT HistoryFree
CHECK_DEADLOCK FALSE
