SPECIFICATION Spec
CONSTANTS
  NoFinally = FALSE
  AllowReentry = FALSE
  MaxLen = 4
  MaxOps = 5
INVARIANT ScopeRestored
INVARIANT Balanced
INVARIANT HistoryFree
CHECK_DEADLOCK FALSE
