------------------------------- MODULE MC_Ref -------------------------------
(***************************************************************************)
(* The Extract machine (C02): start from a reference-free schema T of the  *)
(* draft; choose a subschema position, a definition name and a base-URI /  *)
(* store arrangement; move the subschema to a definition and leave a       *)
(* reference.  The reachable final states are the scenarios; TLC checks on *)
(* each that the specification is transparent (the located errors of the   *)
(* schema with references equal those of its inlining, for every instance) *)
(* and exports the scenario with the expected errors for replay.           *)
(***************************************************************************)
EXTENDS RefTransparency, SchemaUniverse, TLC, Json

CONSTANTS D, Names, Arrs

VARIABLES stage, bi, pos, name, arr
vars == <<stage, bi, pos, name, arr>>

S_bb == <<98>>
Req(n) == IF D = 3 THEN Obj1(K_properties, Obj1(n, Obj1(K_required, JTrue))) ELSE Obj1(K_required, Arr(<<Str(n)>>))
Bases == <<
  JObj(<<K_properties, K_additionalProperties>>,
       <<Obj2(S_a, TInt, S_b, Obj1(K_items, Min2)), TStr>>),
  JObj(<<K_items, K_additionalItems>>, <<Arr(<<TInt, Enum1>>), TStr>>),
  IF D = 3 THEN JObj(<<K_extends, K_disallow>>, <<Arr(<<TInt, Min2>>), Arr(<<Obj1(K_type, Str(T_null))>>)>>)
  ELSE JObj(<<K_anyOf, K_not>>, <<Arr(<<TInt, Req(S_a)>>), Obj1(K_type, Str(T_null))>>),
  JObj(<<K_patternProperties, K_dependencies>>,
       <<Obj1(<<94, 97>>, TInt), Obj1(S_a, Obj1(K_properties, Obj1(S_b, TInt)))>>),
  IF D >= 6 THEN JObj(<<K_contains, K_propertyNames>>, <<TInt, Obj1(K_maxLength, N1)>>) ELSE Obj1(K_items, Obj1(K_items, TInt)),
  IF D = 7 THEN JObj(<<K_if, K_then, K_else>>, <<TInt, Min2, TStr>>)
  ELSE IF D = 3 THEN Obj1(K_type, Arr(<<Str(T_string), Obj1(K_minimum, N2)>>))
  ELSE Obj1(K_oneOf, Arr(<<TInt, Min2>>)) >>

RInstances == << N1, N3, F15, Str(S_x), JNull,
                 Obj2(S_a, N1, S_b, Arr(<<N1, N3>>)), JObj(<<S_a, S_b, S_c>>, <<Str(S_x), Arr(<<N1>>), N1>>),
                 Arr(<<N1, N2, Str(S_x)>>), Arr(<<Str(S_x), N1, N2>>), Obj1(S_ab, Str(S_x)), Obj1(S_a, N1), Arr(<<F15>>),
                 Arr(<<Arr(<<N1, Str(S_x)>>)>>) >>

AllNames == << S_a, <<>>, <<97, 47, 98>>, <<97, 126, 98>>, <<126, 48, 49>>, <<126, 49>>, <<37>>, <<37, 50, 53>>,
               <<97, 32, 98>>, <<233>>, <<48>>, <<48, 49>>, <<35>>, <<63>>, <<34>>, <<92>>, <<126, 48>>, <<47>>, <<126>>,
               <<120, 115, 58, 105, 110, 116>> >>      \* the last one: "xs:int" (a colon inside a relative reference)

T == Bases[bi]
\* positions that may be extracted (Draft 3: a property subschema with `required` is read lexically by its parent)
Extractable(p) == LET s == At(T, p, 1).v IN ~(D = 3 /\ IsObj(s) /\ HasKey(s, K_required))

U(s) == s     \* URL texts
URoot   == <<104,116,116,112,58,47,47,120,46,105,110,118,97,108,105,100,47,114,111,111,116,46,106,115,111,110>>   \* http://x.invalid/root.json
UDirRoot == <<104,116,116,112,58,47,47,120,46,105,110,118,97,108,105,100,47,100,105,114,47,114,111,111,116,46,106,115,111,110>>  \* http://x.invalid/dir/root.json
UDefs   == <<104,116,116,112,58,47,47,120,46,105,110,118,97,108,105,100,47,100,101,102,115,46,106,115,111,110>>   \* http://x.invalid/defs.json
UDirDefs == <<104,116,116,112,58,47,47,120,46,105,110,118,97,108,105,100,47,100,105,114,47,100,101,102,115,46,106,115,111,110>>  \* http://x.invalid/dir/defs.json
UNested == <<104,116,116,112,58,47,47,120,46,105,110,118,97,108,105,100,47,110,47,98,46,106,115,111,110>>          \* http://x.invalid/n/b.json
UNestedDefs == <<104,116,116,112,58,47,47,120,46,105,110,118,97,108,105,100,47,110,47,100,101,102,115,46,106,115,111,110>>  \* http://x.invalid/n/defs.json
RelRoot == <<114,111,111,116,46,106,115,111,110>>     \* root.json
RelDefs == <<100,101,102,115,46,106,115,111,110>>     \* defs.json
UUrn    == <<117,114,110,58,101,120,97,109,112,108,101,58,114,111,111,116>>   \* urn:example:root
UOther  == <<104,116,116,112,58,47,47,120,46,105,110,118,97,108,105,100,47,111,116,104,101,114,46,106,115,111,110>>  \* http://x.invalid/other.json
UAlt == <<104,116,116,112,58,47,47,120,46,105,110,118,97,108,105,100,47,97,47,98,46,106,115,111,110>>   \* http://x.invalid/a/b.json
UAltDefs == <<104,116,116,112,58,47,47,120,46,105,110,118,97,108,105,100,47,97,47,100,101,102,115,46,106,115,111,110>>   \* http://x.invalid/a/defs.json
K_t == <<116, 116>>
K_u == <<117, 117>>
K_chain == <<99,104,97,105,110>>
K_xdefs == <<120,45,100,101,102,115>>

DefRef(n) == <<35>> \o FragmentOf(<<PS(K_definitions), PS(n)>>)
\* the same fragment with every "/" separator written percent-encoded ("%2F"): a URI fragment is percent-decoded as a
\* whole before it is read as a JSON Pointer, so it designates the same location
RECURSIVE PctSlash(_)
PctSlash(s) == IF s = <<>> THEN <<>> ELSE (IF Head(s) = 47 THEN <<37, 50, 70>> ELSE <<Head(s)>>) \o PctSlash(Tail(s))
DefRefPct(n) == <<35>> \o PctSlash(FragmentOf(<<PS(K_definitions), PS(n)>>))
RefObj(r) == Obj1(K_d_ref, Str(r))
Sub == At(T, pos, 1).v
WithFirst(S, k, v) == JObj(<<k>> \o S.k, <<v>> \o S.v)
WithLast(S, k, v)  == JObj(Append(S.k, k), Append(S.v, v))
Defs(n) == Obj1(n, Sub)
TRef(r) == SetAt(T, pos, 1, RefObj(r))
\* the root-level wrapper that carries a nested id (arrangements 11, 12)
Wrapper(inner) == Obj1(IF D = 3 THEN K_extends ELSE K_allOf, Arr(<<inner>>))

\* [S, base, more]
Scenario ==
  LET n == name IN
  CASE arr = "local"      -> [S |-> WithLast(TRef(DefRef(n)), K_definitions, Defs(n)), more |-> <<>>]
    [] arr = "rootid"     -> [S |-> WithFirst(WithLast(TRef(DefRef(n)), K_definitions, Defs(n)), IdKw(D), Str(URoot)), more |-> <<>>]
    [] arr = "rootidhash" -> [S |-> WithFirst(WithLast(TRef(DefRef(n)), K_definitions, Defs(n)), IdKw(D), Str(URoot \o <<35>>)), more |-> <<>>]
    [] arr = "absref"     -> [S |-> WithFirst(WithLast(TRef(URoot \o DefRef(n)), K_definitions, Defs(n)), IdKw(D), Str(URoot)), more |-> <<>>]
    [] arr = "relid"      -> [S |-> WithFirst(WithLast(TRef(DefRef(n)), K_definitions, Defs(n)), IdKw(D), Str(RelRoot)), more |-> <<>>]
    [] arr = "storeabs"   -> [S |-> TRef(UDefs \o DefRef(n)),
                              more |-> <<[u |-> UDefs, doc |-> Obj1(K_definitions, Defs(n))]>>]
    [] arr = "storerel"   -> [S |-> WithFirst(TRef(RelDefs \o DefRef(n)), IdKw(D), Str(UDirRoot)),
                              more |-> <<[u |-> UDirDefs, doc |-> Obj1(K_definitions, Defs(n))]>>]
    [] arr = "storeownid" -> [S |-> TRef(UDefs \o DefRef(n)),
                              more |-> <<[u |-> UDefs, doc |-> Obj2(IdKw(D), Str(UDefs), K_definitions, Defs(n))]>>]
    [] arr = "chain"      -> [S |-> WithLast(TRef(DefRef(K_chain)), K_definitions,
                                             JObj(<<n, K_chain>>, <<Sub, RefObj(DefRef(n))>>)), more |-> <<>>]
    [] arr = "arrayelem"  -> [S |-> WithLast(TRef(<<35, 47>> \o K_xdefs \o <<47, 49>>), K_xdefs, Arr(<<EmptyObj, Sub>>)), more |-> <<>>]
    [] arr = "nestedabs"  -> [S |-> JObj(<<IdKw(D)>> \o Wrapper(EmptyObj).k \o <<K_definitions>>,
                                         <<Str(URoot)>> \o Wrapper(WithFirst(TRef(URoot \o DefRef(n)), IdKw(D), Str(UNested))).v \o <<Defs(n)>>),
                              more |-> <<>>]
    [] arr = "nestedrel"  -> [S |-> JObj(<<IdKw(D)>> \o Wrapper(EmptyObj).k,
                                         <<Str(URoot)>> \o Wrapper(WithFirst(TRef(RelDefs \o DefRef(n)), IdKw(D), Str(UNested))).v),
                              more |-> <<[u |-> UNestedDefs, doc |-> Obj1(K_definitions, Defs(n))]>>]
    \* a reference into another document under a keyword that only asks for a verdict (not / disallow), evaluated
    \* BEFORE a same-document reference: the second must still be resolved against the root document
    [] arr = "mixed"      -> [S |-> JObj(<<IF D = 3 THEN K_disallow ELSE K_not>> \o TRef(DefRef(n)).k \o <<K_definitions>>,
                                         <<IF D = 3 THEN Arr(<<RefObj(UOther \o DefRef(K_t))>>) ELSE RefObj(UOther \o DefRef(K_t))>>
                                           \o TRef(DefRef(n)).v \o <<Defs(n)>>),
                              more |-> <<[u |-> UOther, doc |-> Obj1(K_definitions, JObj(<<K_t, n>>, <<Obj1(K_type, Str(T_null)), EmptyObj>>))]>>]
    \* the same, the cross-document reference designating a schema that is ITSELF only a reference (two nested scopes are
    \* entered, and both are left when the verdict is known after the first error): afterwards the base is the root's again
    [] arr = "mixedchain" -> [S |-> JObj(<<IF D = 3 THEN K_disallow ELSE K_not>> \o TRef(DefRef(n)).k \o <<K_definitions>>,
                                         <<IF D = 3 THEN Arr(<<RefObj(UOther \o DefRef(K_t))>>) ELSE RefObj(UOther \o DefRef(K_t))>>
                                           \o TRef(DefRef(n)).v \o <<Defs(n)>>),
                              more |-> <<[u |-> UOther, doc |-> Obj1(K_definitions, JObj(<<K_t, K_u, n>>,
                                            <<RefObj(DefRef(K_u)), Obj1(K_type, Str(T_null)), EmptyObj>>))]>>]
    \* the OTHER drafts' id keyword on the way to the reference must NOT change the base (C10, second half)
    [] arr = "otherid"    -> [S |-> JObj(<<IdKw(D)>> \o Wrapper(EmptyObj).k,
                                         <<Str(UDirRoot)>> \o Wrapper(WithFirst(TRef(RelDefs \o DefRef(n)),
                                                                               IF D <= 4 THEN K_d_id ELSE K_id, Str(UNested))).v),
                              more |-> <<[u |-> UDirDefs, doc |-> Obj1(K_definitions, Defs(n))]>>]
    \* recursion through the root ("#"), only at positions below an instance-consuming keyword (well-founded)
    [] arr = "recursive"  -> [S |-> TRef(<<35>>), more |-> <<>>]
    \* the caller's store holds ANOTHER document under the root's own id (an older revision): same-document references
    \* still mean the document itself
    [] arr = "shadow"     -> [S |-> WithFirst(WithLast(TRef(DefRef(n)), K_definitions, Defs(n)), IdKw(D), Str(URoot)),
                              more |-> <<[u |-> URoot, doc |-> Obj1(K_definitions, Obj1(n, Never(D)))]>>]
    [] arr = "pctsep"     -> [S |-> WithLast(TRef(DefRefPct(n)), K_definitions, Defs(n)), more |-> <<>>]
    \* another document of the store merely CLAIMS (in its own id) the URL under which the referenced document is kept
    [] arr = "claimed"    -> [S |-> TRef(UDefs \o DefRef(n)),
                              more |-> <<[u |-> UDefs, doc |-> Obj1(K_definitions, Defs(n))],
                                         [u |-> UOther, doc |-> Obj2(IdKw(D), Str(UDefs), K_definitions, Obj1(n, Never(D)))]>>]
    \* the empty reference (the document itself, like "#") with sibling keywords, which are ignored next to $ref
    [] arr = "emptyref"   -> [S |-> SetAt(T, pos, 1, WithLast(Never(D), K_d_ref, Str(<<>>))), more |-> <<>>]
    [] arr = "urn"        -> [S |-> WithFirst(WithLast(TRef(DefRef(n)), K_definitions, Defs(n)), IdKw(D), Str(UUrn)), more |-> <<>>]
    \* ONE relative reference text under TWO bases: below a first nested id it designates an empty definition of another
    \* document, below the second the extracted subschema. What a reference designates is a function of (base in force,
    \* reference text), never of the reference text (or of the object that carries it) alone. The harness presents the
    \* two equal {"$ref": ...} objects as one shared Python object.
    [] arr = "twobases"   -> [S |-> JObj(<<IdKw(D)>> \o Wrapper(EmptyObj).k,
                                         <<Str(URoot),
                                           Arr(<<JObj(<<IdKw(D)>> \o Wrapper(EmptyObj).k, <<Str(UAlt), Arr(<<RefObj(RelDefs \o DefRef(n))>>)>>),
                                                 WithFirst(TRef(RelDefs \o DefRef(n)), IdKw(D), Str(UNested))>>)>>),
                              more |-> <<[u |-> UAltDefs, doc |-> Obj1(K_definitions, Obj1(n, EmptyObj))],
                                         [u |-> UNestedDefs, doc |-> Obj1(K_definitions, Defs(n))]>>]

AllArrs == {"local", "rootid", "rootidhash", "absref", "relid", "storeabs", "storerel", "storeownid", "chain",
            "arrayelem", "nestedabs", "nestedrel", "mixed", "otherid", "recursive", "shadow", "pctsep", "claimed", "emptyref", "urn", "twobases", "mixedchain"}

QuickNames == {1, 2, 3, 5, 6, 8, 10, 13, 20}
ThoroughNames == DOMAIN AllNames

OtherIdOnly == {"otherid"}

Init == stage = 0 /\ bi = 1 /\ pos = <<>> /\ name = <<>> /\ arr = "local"
ChooseBase == stage = 0 /\ bi' \in DOMAIN Bases /\ stage' = 1 /\ UNCHANGED <<pos, name, arr>>
ChoosePos  == stage = 1 /\ pos' \in { p \in SubschemaPaths(D, T) : Extractable(p) } /\ stage' = 2 /\ UNCHANGED <<bi, name, arr>>
ChooseName == stage = 2 /\ name' \in { AllNames[i] : i \in Names } /\ stage' = 3 /\ UNCHANGED <<bi, pos, arr>>
ChooseArr  == /\ stage = 3 /\ arr' \in Arrs /\ stage' = 4 /\ UNCHANGED <<bi, pos, name>>
              /\ (arr' \in {"mixed", "mixedchain"} => ~HasKey(T, IF D = 3 THEN K_disallow ELSE K_not))      \* keys of an object are unique
              /\ (arr' \in {"recursive", "emptyref"} => pos # <<>> /\ pos[1].s \in {K_properties, K_patternProperties, K_additionalProperties,
                                                                     K_items, K_additionalItems, K_contains})
Next == ChooseBase \/ ChoosePos \/ ChooseName \/ ChooseArr
Spec == Init /\ [][Next]_vars

REnv(sc) == EnvN(sc.S, RootBase(D, sc.S), sc.more, UPats)
NI == Len(RInstances)

Transparent ==
  stage = 4 =>
    LET sc == Scenario  env == REnv(sc)
        inl == IF arr \in {"recursive", "emptyref"} THEN [ok |-> TRUE, v |-> InlineTrunc(D, env, sc.S, 4)] ELSE Inline(D, env, sc.S, FMAX) IN
    /\ inl.ok
    /\ \A i \in 1 .. NI :
         LET a == Run(D, env, sc.S, RInstances[i])
             b == Run(D, EnvFor(D, inl.v, UPats), inl.v, RInstances[i])
         IN  a.exc = {} /\ a.ood = {} /\ LocBag(a.errs, b.errs)
\* extraction preserves meaning: the scenario behaves as the original reference-free schema
SameAsOriginal ==
  (stage = 4 /\ arr \notin {"mixed", "mixedchain", "recursive", "emptyref"}) =>
    LET sc == Scenario  env == REnv(sc) IN
    \A i \in 1 .. NI : LocBag(Run(D, env, sc.S, RInstances[i]).errs, Run(D, EnvFor(D, T, UPats), T, RInstances[i]).errs)

RECURSIVE Plain(_)
Plain(e) == [kw |-> e.kw, ip |-> e.ip, sp |-> e.sp, tag |-> e.tag, ctx |-> [j \in DOMAIN e.ctx |-> Plain(e.ctx[j])]]
ASSUME PrintT(ToJson([instances |-> RInstances]))
ExportInv ==
  stage = 4 =>
    LET sc == Scenario  env == REnv(sc)
        inl == IF arr \in {"recursive", "emptyref"} THEN [ok |-> TRUE, v |-> InlineTrunc(D, env, sc.S, 4)] ELSE Inline(D, env, sc.S, FMAX) IN
    PrintT(ToJson([S |-> sc.S, more |-> sc.more, arr |-> arr, name |-> name, inl |-> inl.v, T |-> T,
                   e |-> [i \in 1 .. NI |-> LET r == Run(D, env, sc.S, RInstances[i]) IN
                            [j \in DOMAIN r.errs |-> Plain(r.errs[j])]]]))
=============================================================================
