SPECIFICATION Spec
CONSTANTS
  D = 3
  Names <- QuickNames
  Arrs <- OtherIdOnly
INVARIANT Transparent
INVARIANT SameAsOriginal
INVARIANT ExportInv
CHECK_DEADLOCK FALSE
