SPECIFICATION Spec
CONSTANTS
  D = 6
  Names <- QuickNames
  Arrs <- OtherIdOnly
INVARIANT Transparent
INVARIANT SameAsOriginal
INVARIANT ExportInv
CHECK_DEADLOCK FALSE
