SPECIFICATION Spec
CONSTANTS
  D = 7
  Names <- QuickNames
  Arrs <- OtherIdOnly
INVARIANT Transparent
INVARIANT SameAsOriginal
INVARIANT ExportInv
CHECK_DEADLOCK FALSE
