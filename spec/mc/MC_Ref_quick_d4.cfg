SPECIFICATION Spec
CONSTANTS
  D = 4
  Names <- QuickNames
  Arrs <- AllArrs
INVARIANT Transparent
INVARIANT SameAsOriginal
INVARIANT ExportInv
CHECK_DEADLOCK FALSE
