SPECIFICATION Spec
CONSTANTS
  D = 6
  Names <- QuickNames
  Arrs <- AllArrs
INVARIANT Transparent
INVARIANT SameAsOriginal
INVARIANT ExportInv
CHECK_DEADLOCK FALSE
