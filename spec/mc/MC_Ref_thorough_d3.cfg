SPECIFICATION Spec
CONSTANTS
  D = 3
  Names <- ThoroughNames
  Arrs <- AllArrs
INVARIANT Transparent
INVARIANT SameAsOriginal
INVARIANT ExportInv
CHECK_DEADLOCK FALSE
