SPECIFICATION Spec
CONSTANTS
  D = 6
  Names <- ThoroughNames
  Arrs <- AllArrs
INVARIANT Transparent
INVARIANT SameAsOriginal
INVARIANT ExportInv
CHECK_DEADLOCK FALSE
