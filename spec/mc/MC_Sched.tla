------------------------------- MODULE MC_Sched -------------------------------
(***************************************************************************)
(* C18, thread level: whole validations of different validator objects run *)
(* concurrently; the unit of interleaving is one resolver EVENT (push, pop, *)
(* resolve) of a member's measured script.  TLC enumerates every schedule  *)
(* with at most MaxSwitches preemptions (a context switch away from a      *)
(* member that has not finished), checks Independent at every micro-step,  *)
(* and exports the schedules; each is replayed on real THREADS whose       *)
(* tracing resolvers block at every event until the schedule grants the    *)
(* turn.                                                                   *)
(***************************************************************************)
EXTENDS Iterators, Json, IOUtils

CONSTANTS MaxSwitches
Groups == JsonDeserialize(IOEnv.SCEN_FILE)

VARIABLES g, rs, cur, switches, sched
vars == <<g, rs, cur, switches, sched>>

N == Len(Groups[g])
\* scripts without the yield events: a yield is not a point where the scheduler can intervene
Script(n) == SelectSeq(Groups[g][n].script, LAMBDA ev : ev.e # "yield")
Init == /\ g \in DOMAIN Groups
        /\ rs = [n \in 1 .. Len(Groups[g]) |-> [Fresh(<<Groups[g][n].base>>) EXCEPT !.status = "running"]]
        /\ cur \in 1 .. Len(Groups[g]) /\ switches = 0 /\ sched = <<>>
Live(n) == rs[n].status = "running" /\ rs[n].pc <= Len(Script(n))
Step(n) ==
  /\ Live(n)
  /\ (n = cur \/ ~Live(cur) \/ switches < MaxSwitches)
  /\ switches' = IF n # cur /\ Live(cur) THEN switches + 1 ELSE switches
  /\ cur' = n
  /\ rs' = [rs EXCEPT ![n] = StepOne(Script(n), rs[n])]
  /\ sched' = Append(sched, n)
  /\ UNCHANGED g
Next == \E n \in 1 .. N : Step(n)
Spec == Init /\ [][Next]_vars

SoloNoYield(n) == RunFrom(Script(n), Fresh(<<Groups[g][n].base>>), -1)
Independent == \A n \in 1 .. N : IsPrefix(rs[n].out, SoloNoYield(n).out)
AllDone == \A n \in 1 .. N : ~Live(n)
ExportInv == AllDone => PrintT(ToJson([g |-> g, sched |-> sched]))
=============================================================================
