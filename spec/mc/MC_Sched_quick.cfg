SPECIFICATION Spec
CONSTANTS
  NoFinally = FALSE
  MaxSwitches = 1
INVARIANT Independent
INVARIANT ExportInv
CHECK_DEADLOCK FALSE
