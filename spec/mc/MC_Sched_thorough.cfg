SPECIFICATION Spec
CONSTANTS
  NoFinally = FALSE
  MaxSwitches = 2
INVARIANT Independent
INVARIANT ExportInv
CHECK_DEADLOCK FALSE
