------------------------------ MODULE MC_Schema ------------------------------
(***************************************************************************)
(* SchemaBuilder: the bounded universe of schemas as the reachable states  *)
(* of a machine (DESIGN.md 4.3 M1).  `schema` starts as {}; AddKeyword     *)
(* appends a member drawn from the draft's pools; AddForeign appends a     *)
(* keyword the draft does not define; Wrap nests the current schema under  *)
(* an applicator.  Properties checked on the specification itself:         *)
(*   C05 (invariant)  the errors of a schema object are the bag union,     *)
(*       over its keywords, of the errors the keyword yields when it       *)
(*       stands alone with the siblings it consults;                       *)
(*   C05 (action)     adding a keyword nobody consults adds exactly that   *)
(*       keyword's errors;                                                 *)
(*   C10 (action)     adding a foreign keyword changes nothing;            *)
(*   sanity           {} accepts everything, verdicts are type-gated.      *)
(* Every state is exported (verdict vector or error bags over the fixed    *)
(* instance list) and replayed into the real validator classes.            *)
(***************************************************************************)
EXTENDS SchemaUniverse, Locate, TLC, Json

CONSTANTS D,          \* draft: 3, 4, 6, 7
          Mode,       \* "families": keywords of one interacting family combine freely (any order);
                      \* "pairs": any two keywords (in canonical order)
          Width,      \* maximal number of (own) keywords
          Foreigns,   \* TRUE: AddForeign steps
          Wraps,      \* TRUE: Wrap steps
          RefWraps,   \* TRUE: wrap steps that put the current keywords NEXT TO a $ref (they must be ignored)
          WrapMax,    \* Wrap applies to schemas with at most this many keywords
          ExportMode, \* "none" | "verdict" | "errors"
          WithAcc,    \* TRUE: export whether the draft's metaschema accepts the schema (C11)
          ForeignVals,\* values given to foreign keywords
          ForeignBase \* AddForeign applies to {} and to single-keyword schemas whose keyword is in this set

VARIABLES schema, wrapped, nforeign
vars == <<schema, wrapped, nforeign>>

KwList == <<K_type, K_disallow, K_extends, K_enum, K_const, K_minimum, K_maximum, K_exclusiveMinimum,
            K_exclusiveMaximum, K_divisibleBy, K_multipleOf, K_minLength, K_maxLength, K_pattern, K_minItems,
            K_maxItems, K_uniqueItems, K_items, K_additionalItems, K_contains, K_minProperties, K_maxProperties,
            K_required, K_properties, K_patternProperties, K_additionalProperties, K_propertyNames,
            K_dependencies, K_allOf, K_anyOf, K_oneOf, K_not, K_if, K_then, K_else>>
KwIndex(k) == CHOOSE i \in DOMAIN KwList : KwList[i] = k

KeysOf(S) == { S.k[i] : i \in DOMAIN S.k }
AddMember(S, k, v) == JObj(Append(S.k, k), Append(S.v, v))

Allowed(S, k) ==
  /\ k \notin KeysOf(S)
  /\ Len(S.k) < Width
  /\ \/ S.k = <<>>
     \/ Mode = "families" /\ \E F \in Families(D) : KeysOf(S) \cup {k} \subseteq F
     \/ Mode = "pairs" /\ Len(S.k) = 1 /\ KwIndex(k) > KwIndex(S.k[1])

\* ---- foreign keywords (C10) ----
AllNamed == { KwList[i] : i \in DOMAIN KwList }
Foreign(d) ==
  ( {K_title, K_description, K_default, K_examples, K_d_comment, K_definitions, K_d_schema, K_readOnly,
     K_writeOnly, K_contentMediaType, K_contentEncoding, K_id, K_d_id,
     K_dependentRequired, K_dependentSchemas, K_unevaluatedProperties, K_unevaluatedItems, K_prefixItems,
     K_minContains, K_maxContains, K_d_defs, K_d_anchor, K_d_recursiveRef, K_d_dynamicRef, K_d_vocabulary,
     S_x, S_empty, <<114, 101, 102>>, <<36, 82, 101, 102>>, <<84, 121, 112, 101>>} \cup AllNamed )
  \ ( Keywords(d) \cup {IdKw(d)} \cup {K_required}
      \cup (IF d = 7 THEN {K_then, K_else} ELSE {})
      \cup (IF d <= 4 THEN {K_exclusiveMinimum, K_exclusiveMaximum} ELSE {}) )
ForeignValsAll == { JNull, JTrue, N0, N1, N2, Str(S_a), Arr(<<>>), Arr(<<Str(S_a)>>), EmptyObj, TInt, Obj1(S_a, Arr(<<Str(S_b)>>)) }

\* ---- wrappers ----
WrapKinds(d) == {"items", "itemsArr", "properties", "patternProperties", "additionalProperties", "dependencies"}
   \cup (IF d = 3 THEN {"extends3", "typeSchema", "disallowSchema"} ELSE {"allOf", "anyOf", "oneOf", "not"})
   \cup (IF d >= 6 THEN {"contains", "propertyNames"} ELSE {})
   \cup (IF d = 7 THEN {"if", "then", "else"} ELSE {})
RefKinds == {"refsibDef", "refsibHash", "refsibEmpty", "refsibFirst"}
RefStr(w) == IF w = "refsibHash" THEN <<35>> ELSE IF w = "refsibEmpty" THEN <<>>
             ELSE <<35, 47>> \o K_definitions \o <<47>> \o S_a            \* "#/definitions/a"
WrapIn(d, w, S) ==
  CASE w \in {"refsibDef", "refsibHash", "refsibEmpty"} ->
         JObj(<<K_properties, K_definitions>>, <<Obj1(S_a, AddMember(S, K_d_ref, Str(RefStr(w)))), Obj1(S_a, TInt)>>)
    [] w = "refsibFirst" ->
         JObj(<<K_properties, K_definitions>>,
              <<Obj1(S_a, JObj(<<K_d_ref>> \o S.k, <<Str(RefStr(w))>> \o S.v)), Obj1(S_a, TInt)>>)
    [] w = "items" -> Obj1(K_items, S)
    [] w = "itemsArr" -> Obj2(K_items, Arr(<<TInt, S>>), K_additionalItems, S)
    [] w = "properties" -> Obj1(K_properties, Obj2(S_b, TInt, S_a, S))
    [] w = "patternProperties" -> Obj1(K_patternProperties, Obj1(<<97>>, S))
    [] w = "additionalProperties" -> Obj2(K_properties, Obj1(S_b, EmptyObj), K_additionalProperties, S)
    [] w = "dependencies" -> Obj1(K_dependencies, Obj1(S_a, S))
    [] w = "extends3" -> Obj1(K_extends, Arr(<<EmptyObj, EmptyObj, S>>))
    [] w = "typeSchema" -> Obj1(K_type, Arr(<<Str(T_null), S>>))
    [] w = "disallowSchema" -> Obj1(K_disallow, Arr(<<S>>))
    [] w = "allOf" -> Obj1(K_allOf, Arr(<<EmptyObj, S>>))
    [] w = "anyOf" -> Obj1(K_anyOf, Arr(<<Never(d), S>>))
    [] w = "oneOf" -> Obj1(K_oneOf, Arr(<<S, Min2>>))
    [] w = "not" -> Obj1(K_not, S)
    [] w = "contains" -> Obj1(K_contains, S)
    [] w = "propertyNames" -> Obj1(K_propertyNames, S)
    [] w = "if" -> JObj(<<K_if, K_then, K_else>>, <<S, TInt, TStr>>)
    [] w = "then" -> Obj2(K_if, TInt, K_then, S)
    [] w = "else" -> Obj2(K_if, TInt, K_else, S)

ForeignBaseQuick == {K_type, K_properties, K_additionalProperties, K_items, K_required, K_minimum, K_enum, K_contains}
ForeignBaseAll == AllNamed
ForeignValsQuick == { JTrue, TInt, Str(S_a), N0, N2 }

Init == schema = EmptyObj /\ wrapped = FALSE /\ nforeign = 0

AddKeyword(k, v) == /\ ~wrapped /\ nforeign = 0 /\ Allowed(schema, k)
                    /\ schema' = AddMember(schema, k, v) /\ UNCHANGED <<wrapped, nforeign>>
AddForeign(k, v) == /\ Foreigns /\ ~wrapped /\ nforeign = 0 /\ k \notin KeysOf(schema)
                    /\ (schema.k = <<>> \/ (Len(schema.k) = 1 /\ schema.k[1] \in ForeignBase))
                    /\ schema' = AddMember(schema, k, v) /\ nforeign' = 1 /\ UNCHANGED wrapped
\* other-draft keywords together with the siblings they would consult if they were honoured
ForeignGroups(d) ==
  IF d = 7 THEN {}
  ELSE { <<<<K_if, x>>, <<K_then, y>>, <<K_else, z>>>> : x \in {EmptyObj, TInt}, y \in {Never(d), EmptyObj}, z \in {Never(d), TStr} }
RECURSIVE AddAll(_, _)
AddAll(S, g) == IF g = <<>> THEN S ELSE AddAll(AddMember(S, g[1][1], g[1][2]), Tail(g))
AddForeignGroup(g) == /\ Foreigns /\ ~wrapped /\ nforeign = 0
                      /\ \A j \in DOMAIN g : g[j][1] \notin KeysOf(schema)
                      /\ (schema.k = <<>> \/ (Len(schema.k) = 1 /\ schema.k[1] \in ForeignBase))
                      /\ schema' = AddAll(schema, g) /\ nforeign' = 1 /\ UNCHANGED wrapped

Wrap(w) == /\ (IF w \in RefKinds THEN RefWraps ELSE Wraps) /\ ~wrapped /\ nforeign = 0 /\ schema.k # <<>> /\ Len(schema.k) <= WrapMax
           /\ schema' = WrapIn(D, w, schema) /\ wrapped' = TRUE /\ UNCHANGED nforeign

Next == \/ \E kv \in Pool(D) : AddKeyword(kv[1], kv[2])
        \/ \E k \in Foreign(D), v \in ForeignVals : AddForeign(k, v)
        \/ \E w \in WrapKinds(D) \cup RefKinds : Wrap(w)
        \/ \E g \in ForeignGroups(D) : AddForeignGroup(g)
Spec == Init /\ [][Next]_vars

----------------------------------------------------------------------------
Errs(S, I) == Run(D, UEnv(S), S, I)
NI == Len(Instances)

\* C05, static form
UnionLaw(S, I) ==
  LET whole == Errs(S, I).errs IN
  /\ \A k \in Active(D, S) : SameBag(OfKw(whole, k), OfKw(Errs(Restr(D, S, k), I).errs, k))
  /\ \A j \in DOMAIN whole : Attr(whole[j]) \in Active(D, S)
C05Static == \A i \in 1 .. NI : UnionLaw(schema, Instances[i])

\* C05, incremental form: a new keyword that nobody present consults, and that consults nobody present,
\* adds exactly its own errors and leaves all others alone
LastKey(S) == S.k[Len(S.k)]
IsAddStep == Len(schema'.k) > Len(schema.k) /\ wrapped' = wrapped
C05Step == [][ (IsAddStep /\ nforeign' = 0 /\ Len(schema'.k) = Len(schema.k) + 1
                /\ LastKey(schema') \notin UNION { Consults(D, k) : k \in KeysOf(schema) }
                /\ Consults(D, LastKey(schema')) \cap KeysOf(schema) = {})
               => \A i \in 1 .. NI :
                     LET old == Errs(schema, Instances[i]).errs
                         new == Errs(schema', Instances[i]).errs
                         k == LastKey(schema')
                     IN  SameBag(new, old \o OfKw(new, k)) /\ OfKw(old, k) = <<>> ]_vars
\* C10: a foreign keyword changes nothing
C10Step == [][ (IsAddStep /\ nforeign' = 1)
               => \A i \in 1 .. NI : LET a == Errs(schema, Instances[i])  b == Errs(schema', Instances[i]) IN
                                       SameBag(a.errs, b.errs) /\ a.exc = b.exc /\ a.ood = b.ood ]_vars

\* C06 on the specification itself: every error the semantics yields locates itself (schema path walks to the
\* keyword's value through reference hops, instance path walks into the instance) -- tags mark the exceptions
RECURSIVE SpecLocated(_, _, _, _, _)
SpecLocated(S, I, es, paip, pasp) ==
  \A j \in DOMAIN es :
    LET e == es[j]  aip == paip \o e.ip  asp == pasp \o e.sp
        nav == Nav(D, UEnv(S), S, asp, 1, FALSE)
    IN  /\ nav.ok
        /\ (e.kw = <<>> => nav.v = JFalse)
        /\ (e.kw # <<>> => asp[Len(asp)].s = e.kw)
        /\ (e.tag = "" /\ ~nav.pn => At(I, aip, 1).ok)
        /\ SpecLocated(S, I, e.ctx, aip, asp)
C06Spec == \A i \in 1 .. NI : SpecLocated(schema, Instances[i], Errs(schema, Instances[i]).errs, <<>>, <<>>)

\* C10/C02: keywords written next to a $ref are ignored -- the wrapped schema behaves as the same wrapper around {}
IsRefWrapStep == wrapped' /\ ~wrapped /\ \E w \in RefKinds : schema' = WrapIn(D, w, schema)
RefSiblingStep == [][ IsRefWrapStep =>
                      LET w == CHOOSE w \in RefKinds : schema' = WrapIn(D, w, schema)
                          bare == WrapIn(D, w, EmptyObj)
                      IN  \A i \in 1 .. NI : SameBag(Errs(schema', Instances[i]).errs, Errs(bare, Instances[i]).errs) ]_vars

\* sanity of the oracle itself
EmptyAccepts == schema = EmptyObj => \A i \in 1 .. NI : IsValidR(Errs(schema, Instances[i]))
NoSurprises  == \A i \in 1 .. NI : LET r == Errs(schema, Instances[i]) IN r.exc = {} /\ r.ood \subseteq {"inexact"}

----------------------------------------------------------------------------
\* the instance list is printed once, so that the replay harness indexes verdict vectors by the same list
ASSUME ExportMode = "none" \/ PrintT(ToJson([instances |-> Instances]))

Bit(r) == IF r.ood # {} THEN 2 ELSE IF r.errs = <<>> THEN 1 ELSE 0
RECURSIVE Plain(_)
Plain(e) == [kw |-> e.kw, ip |-> e.ip, sp |-> e.sp, tag |-> e.tag, ctx |-> [j \in DOMAIN e.ctx |-> Plain(e.ctx[j])]]
ExportInv ==
  CASE ExportMode = "verdict" ->
         PrintT(ToJson([S |-> schema, f |-> nforeign, acc |-> (WithAcc => Accepts(D, schema)), v |-> [i \in 1 .. NI |-> Bit(Errs(schema, Instances[i]))]]))
    [] ExportMode = "errors" ->
         PrintT(ToJson([S |-> schema, f |-> nforeign, acc |-> (WithAcc => Accepts(D, schema)),
                        e |-> [i \in 1 .. NI |-> LET r == Errs(schema, Instances[i]) IN
                                 [ood |-> r.ood # {}, errs |-> [j \in DOMAIN r.errs |-> Plain(r.errs[j])]]]]))
    [] OTHER -> TRUE
=============================================================================
