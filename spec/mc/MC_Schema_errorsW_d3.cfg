SPECIFICATION Spec
CONSTANTS
  D = 3
  Mode = "families"
  Width = 2
  Foreigns = FALSE
  Wraps = TRUE
  RefWraps = FALSE
  WrapMax = 1
  ForeignVals <- ForeignValsQuick
  ForeignBase <- ForeignBaseQuick
  WithAcc = FALSE
  ExportMode = "errors"
INVARIANT C05Static
INVARIANT EmptyAccepts
INVARIANT NoSurprises
INVARIANT ExportInv
PROPERTY C05Step
PROPERTY C10Step
CHECK_DEADLOCK FALSE
