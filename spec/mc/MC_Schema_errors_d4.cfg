SPECIFICATION Spec
CONSTANTS
  D = 4
  Mode = "families"
  Width = 2
  Foreigns = FALSE
  Wraps = FALSE
  RefWraps = FALSE
  WrapMax = 1
  ForeignVals <- ForeignValsQuick
  ForeignBase <- ForeignBaseQuick
  WithAcc = FALSE
  ExportMode = "errors"
INVARIANT C05Static
INVARIANT EmptyAccepts
INVARIANT NoSurprises
INVARIANT ExportInv
CHECK_DEADLOCK FALSE
