SPECIFICATION Spec
CONSTANTS
  D = 3
  Mode = "families"
  Width = 1
  Foreigns = TRUE
  Wraps = FALSE
  RefWraps = FALSE
  WrapMax = 0
  ForeignVals <- ForeignValsAll
  ForeignBase <- ForeignBaseAll
  WithAcc = FALSE
  ExportMode = "errors"
INVARIANT EmptyAccepts
INVARIANT NoSurprises
INVARIANT ExportInv
PROPERTY C10Step
CHECK_DEADLOCK FALSE
