SPECIFICATION Spec
CONSTANTS
  D = 4
  Mode = "families"
  Width = 1
  Foreigns = TRUE
  Wraps = FALSE
  WrapMax = 0
  WithAcc = FALSE
  ExportMode = "errors"
INVARIANT C05Static
INVARIANT EmptyAccepts
INVARIANT NoSurprises
INVARIANT ExportInv
PROPERTY C05Step
PROPERTY C10Step
CHECK_DEADLOCK FALSE
