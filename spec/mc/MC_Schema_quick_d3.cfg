SPECIFICATION Spec
CONSTANTS
  D = 3
  Mode = "families"
  Width = 2
  Foreigns = FALSE
  Wraps = TRUE
  RefWraps = FALSE
  WrapMax = 1
  ForeignVals <- ForeignValsQuick
  ForeignBase <- ForeignBaseQuick
  WithAcc = FALSE
  ExportMode = "verdict"
INVARIANT EmptyAccepts
INVARIANT NoSurprises
INVARIANT ExportInv
CHECK_DEADLOCK FALSE
