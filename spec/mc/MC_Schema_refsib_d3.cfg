SPECIFICATION Spec
CONSTANTS
  D = 3
  Mode = "families"
  Width = 1
  Foreigns = FALSE
  Wraps = FALSE
  RefWraps = TRUE
  WrapMax = 1
  ForeignVals <- ForeignValsQuick
  ForeignBase <- ForeignBaseQuick
  WithAcc = FALSE
  ExportMode = "errors"
INVARIANT EmptyAccepts
INVARIANT NoSurprises
INVARIANT ExportInv
PROPERTY RefSiblingStep
CHECK_DEADLOCK FALSE
