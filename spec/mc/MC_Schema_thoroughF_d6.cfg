SPECIFICATION Spec
CONSTANTS
  D = 6
  Mode = "families"
  Width = 3
  Foreigns = FALSE
  Wraps = TRUE
  RefWraps = FALSE
  WrapMax = 2
  ForeignVals <- ForeignValsQuick
  ForeignBase <- ForeignBaseQuick
  WithAcc = FALSE
  ExportMode = "verdict"
INVARIANT EmptyAccepts
INVARIANT NoSurprises
INVARIANT ExportInv
CHECK_DEADLOCK FALSE
