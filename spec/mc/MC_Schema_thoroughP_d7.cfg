SPECIFICATION Spec
CONSTANTS
  D = 7
  Mode = "pairs"
  Width = 2
  Foreigns = FALSE
  Wraps = FALSE
  RefWraps = FALSE
  WrapMax = 0
  ForeignVals <- ForeignValsQuick
  ForeignBase <- ForeignBaseQuick
  WithAcc = FALSE
  ExportMode = "verdict"
INVARIANT EmptyAccepts
INVARIANT NoSurprises
INVARIANT ExportInv
CHECK_DEADLOCK FALSE
