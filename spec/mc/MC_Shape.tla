------------------------------ MODULE MC_Shape ------------------------------
(***************************************************************************)
(* The "anything a metaschema might let through" universe (C03, C11):      *)
(* candidate schemas whose keyword values range over a pool of JSON SHAPES *)
(* (well-formed and malformed alike) -- as the reachable states of a       *)
(* builder machine: AddShape(k, v) appends a member with any shape value,  *)
(* Down(w) nests the candidate one level down inside a well-formed parent. *)
(* For every candidate TLC computes whether the draft's bundled metaschema *)
(* accepts it (Meta!Accepts: the semantics applied to the metaschema) and, *)
(* for accepted ones, the outcome classes a validation of each instance    *)
(* may have.  Both are exported and replayed into the real code.           *)
(***************************************************************************)
EXTENDS SchemaUniverse, TLC, Json

CONSTANTS D, Width, Downs, ShapeSel     \* ShapeSel: "all" | "small"

VARIABLES schema, down
vars == <<schema, down>>

HUGE  == JInt(<<1400>>)                  \* an integer no float can hold
FBIG  == JFloat(FALSE, <<1023>>)         \* ~ 9e307
S_foo == <<102, 111, 111>>
S_hat_a == <<94, 97>>
S_pct == <<37, 115>>          \* "%s"
S_brace == <<123, 48, 125>>   \* "{0}"
NullChars == Arr(<<Str(<<110>>), Str(<<117>>), Str(<<108>>), Str(<<108>>)>>)
Shapes ==
  { JNull, JTrue, JFalse, N0, N1, NM1, N2, F15, F1, HUGE, FBIG,
    Str(<<>>), Str(S_a), Str(S_hat_a), Str(T_integer), Str(T_any), Str(S_foo),
    Arr(<<>>), Arr(<<EmptyObj>>), Arr(<<EmptyObj, EmptyObj>>), Arr(<<JTrue>>), Arr(<<Str(S_a)>>),
    Arr(<<Str(S_a), Str(S_b)>>), Arr(<<Str(S_a), Str(S_a)>>), Arr(<<N1>>), Arr(<<Str(T_integer), Str(T_string)>>),
    EmptyObj, Obj1(S_a, EmptyObj), Obj1(S_a, JTrue), Obj1(S_a, Arr(<<Str(S_b)>>)), Obj1(S_a, Str(S_b)), Obj1(S_a, N1), TInt,
    \* the characters of a type name, one string each: an array, not the string "null"
    NullChars,
    \* two members that are equal JSON values spelt differently (1 and 1.0 inside): duplicates for uniqueItems
    Arr(<<Obj1(K_minimum, N1), Obj1(K_minimum, F1)>>),
    \* names that are hostile to message formatting: "%s", "{0}"
    Obj1(S_pct, Arr(<<Str(S_b)>>)), Obj1(S_pct, EmptyObj), Arr(<<Str(S_pct), Str(S_brace)>>), Obj1(S_brace, Arr(<<Str(S_pct)>>)) }
SmallShapes == { JNull, JTrue, JFalse, N0, N1, F15, F1, HUGE, Str(<<>>), Str(S_a), Arr(<<>>), Arr(<<Str(S_a)>>), Arr(<<EmptyObj>>),
                 EmptyObj, Obj1(S_a, EmptyObj), Obj1(S_a, Arr(<<Str(S_b)>>)), TInt,
                 Obj1(S_pct, Arr(<<Str(S_b)>>)), Obj1(S_pct, EmptyObj), Arr(<<Str(S_pct), Str(S_brace)>>),
                 Arr(<<Obj1(K_minimum, N1), Obj1(K_minimum, F1)>>), NullChars }
ShapePool == IF ShapeSel = "all" THEN Shapes ELSE SmallShapes

\* every keyword name of the draft's vocabulary, the boolean exclusive* of drafts 3/4, then/else, required of draft 3
ShapeKws(d) == (Keywords(d) \ {K_d_ref})
               \cup (IF d <= 4 THEN {K_exclusiveMinimum, K_exclusiveMaximum} ELSE {})
               \cup (IF d = 7 THEN {K_then, K_else} ELSE {})
               \cup (IF d = 3 THEN {K_required} ELSE {})
               \cup {K_definitions, K_default, IdKw(d), K_d_schema, K_title}

LitPat(s) == [text |-> s, ast |-> Cat([i \in DOMAIN s |-> Lit(s[i])])]
SPats == UPats \o <<LitPat(T_integer), LitPat(T_any), LitPat(S_foo), LitPat(S_b), LitPat(S_pct)>>
SEnv(S) == EnvFor(D, S, SPats)

KeysOf(S) == { S.k[i] : i \in DOMAIN S.k }
AddMember(S, k, v) == JObj(Append(S.k, k), Append(S.v, v))
ShapeFamilies(d) == Families(d) \cup {{K_minLength, K_maxLength}, {K_type, K_enum}}

Init == schema = EmptyObj /\ down = FALSE
AddShape(k, v) == /\ ~down /\ k \notin KeysOf(schema) /\ Len(schema.k) < Width
                  /\ (schema.k = <<>> \/ \E F \in ShapeFamilies(D) : KeysOf(schema) \cup {k} \subseteq F)
                  /\ schema' = AddMember(schema, k, v) /\ UNCHANGED down
DownKinds(d) == {"properties", "items", "definitions", "dependencies", "additionalProperties", "itemsArr"}
                \cup (IF d >= 4 THEN {"allOf", "not"} ELSE {"extends"})
DownIn(d, w, S) ==
  CASE w = "properties" -> Obj1(K_properties, Obj1(S_a, S))
    [] w = "items" -> Obj1(K_items, S)
    [] w = "itemsArr" -> Obj1(K_items, Arr(<<EmptyObj, S>>))
    [] w = "definitions" -> Obj1(K_definitions, Obj1(S_a, S))
    [] w = "dependencies" -> Obj1(K_dependencies, Obj1(S_a, S))
    [] w = "additionalProperties" -> Obj1(K_additionalProperties, S)
    [] w = "allOf" -> Obj1(K_allOf, Arr(<<EmptyObj, S>>))
    [] w = "not" -> Obj1(K_not, S)
    [] w = "extends" -> Obj1(K_extends, Arr(<<S>>))
Down(w) == /\ Downs /\ ~down /\ Len(schema.k) = 1
           /\ schema' = DownIn(D, w, schema) /\ down' = TRUE
\* non-object candidates: the shapes themselves
Bare(v) == /\ ~down /\ schema = EmptyObj /\ schema' = v /\ down' = TRUE

\* reference cases (C03): resolvable, dangling, unretrievable, well-founded recursion, ill-founded recursion,
\* a target that is not a schema
RefTo(s) == Str(s)
P_defs_a == <<35, 47>> \o K_definitions \o <<47>> \o S_a
U_remote == <<104,116,116,112,58,47,47,117,110,114,101,116,114,105,101,118,97,98,108,101,46,105,110,118,97,108,105,100,47,120,46,106,115,111,110>>
U_noturi == <<104, 116, 116, 112, 58, 47, 47, 91>>                 \* "http://["  -- no URI reference at all
U_noturi6 == <<104, 116, 116, 112, 58, 47, 47, 91, 58, 58, 49>>     \* "http://[::1"
U_r == <<104,116,116,112,58,47,47,120,46,105,110,118,97,108,105,100,47,114,46,106,115,111,110>>   \* http://x.invalid/r.json
RefCands(d) == {
  \* references that designate nothing retrievable because they are not URI references: a failed resolution like any other
  Obj1(K_d_ref, RefTo(U_noturi)),
  Obj1(K_properties, Obj1(S_a, Obj1(K_d_ref, RefTo(U_noturi6)))),
  JObj(<<IdKw(d), K_properties>>, <<Str(U_r), Obj1(S_a, Obj1(K_d_ref, RefTo(U_noturi)))>>),
  \* ... and the same text as the document's own id, with a reference into the document itself
  JObj(<<IdKw(d), K_properties, K_definitions>>, <<Str(U_noturi), Obj1(S_a, Obj1(K_d_ref, RefTo(P_defs_a))), Obj1(S_a, TInt)>>),
  Obj1(K_d_ref, RefTo(<<35>>)),
  Obj1(K_d_ref, RefTo(<<35, 47, 110, 111, 112, 101>>)),
  Obj2(K_definitions, Obj1(S_a, TInt), K_d_ref, RefTo(P_defs_a)),
  Obj1(K_properties, Obj1(S_a, Obj1(K_d_ref, RefTo(<<35>>)))),
  Obj1(K_d_ref, RefTo(U_remote)),
  Obj1(K_items, Obj1(K_d_ref, RefTo(U_remote))),
  Obj2(K_definitions, Obj1(S_a, Arr(<<Str(S_b)>>)), K_d_ref, RefTo(P_defs_a)),
  Obj2(K_definitions, Obj1(S_a, Obj1(K_d_ref, RefTo(P_defs_a))), K_d_ref, RefTo(P_defs_a)),
  Obj2(K_definitions, Obj1(S_a, Obj1(K_type, Str(S_foo))), K_items, Obj1(K_d_ref, RefTo(P_defs_a))),
  \* a dangling and a resolvable reference selected by the instance (validators are reused across instances)
  Obj2(K_properties, Obj2(S_a, Obj1(K_d_ref, RefTo(<<35, 47, 110, 111, 112, 101>>)), S_b, Obj1(K_d_ref, RefTo(P_defs_a))),
       K_definitions, Obj1(S_a, TInt)),
  JObj(<<IdKw(d), K_properties, K_definitions>>,
       <<Str(<<104,116,116,112,58,47,47,120,46,105,110,118,97,108,105,100,47,114,46,106,115,111,110>>),
         Obj2(S_a, Obj1(K_d_ref, RefTo(U_remote)), S_b, Obj1(K_d_ref, RefTo(P_defs_a))), Obj1(S_a, TInt)>>) }
\* boolean subschemas next to ordinary ones: an instance failing both yields an error without a keyword name (the
\* `false` schema's) that ties in relevance with a named one
BoolCands(d) == IF d < 6 THEN {}
                ELSE { Obj1(K_properties, Obj2(S_a, JFalse, S_b, TStr)),
                       Obj1(K_anyOf, Arr(<<JFalse, TStr>>)), Obj1(K_oneOf, Arr(<<TStr, JFalse, JFalse>>)),
                       Obj2(K_items, JFalse, K_minItems, N2), Obj1(K_items, Arr(<<JFalse, TStr>>)),
                       Obj2(K_additionalProperties, JFalse, K_properties, Obj1(S_a, JFalse)) }
RefCand(c) == /\ ~down /\ schema = EmptyObj /\ schema' = c /\ down' = TRUE

Next == \/ \E k \in ShapeKws(D), v \in ShapePool : AddShape(k, v)
        \/ \E c \in RefCands(D) \cup BoolCands(D) : RefCand(c)
        \/ \E w \in DownKinds(D) : Down(w)
        \/ \E v \in Shapes : Bare(v)
Spec == Init /\ [][Next]_vars

ShapeInstances == << JNull, JTrue, JFalse, N0, N1, NM1, F15, HUGE, FBIG, Str(<<>>), Str(S_a), Str(S_ab),
                     Arr(<<>>), Arr(<<N1>>), Arr(<<N1, N1>>), Arr(<<N1, Str(S_a)>>), Arr(<<Arr(<<N1>>)>>),
                     EmptyObj, Obj1(S_a, N1), Obj2(S_a, N1, S_b, N2), Obj1(S_a, Obj1(S_a, N1)), Obj1(S_b, Str(S_a)),
                     Obj1(S_pct, N1), Obj2(S_brace, N1, S_a, Str(S_pct)) >>
ASSUME PrintT(ToJson([instances |-> ShapeInstances]))

\* outcome classes the specification allows for one validation: "valid"/"invalid", the documented exceptions the
\* evaluation may raise, and a marker when the case is outside the domain in which the class is claimed
OutOf(S, I) ==
  LET r == Run(D, SEnv(S), S, I) IN
  [cls |-> (IF r.ood \cap {"inexact", "undecided", "regex"} # {} THEN {"valid", "invalid"}
            ELSE IF r.errs = <<>> THEN {"valid"} ELSE {"invalid"}) \cup r.exc,
   ood |-> r.ood \ {"inexact", "undecided", "regex"}]

ExportInv ==
  LET acc == Accepts(D, schema) IN
  PrintT(ToJson([S |-> schema, acc |-> acc,
                 out |-> IF acc THEN [i \in DOMAIN ShapeInstances |-> OutOf(schema, ShapeInstances[i])] ELSE <<>>]))
\* each bundled metaschema is accepted by its own class
MetaAcceptsItself == Accepts(D, MetaDoc(D))
=============================================================================
