SPECIFICATION Spec
CONSTANTS
  D = 3
  Width = 2
  Downs = TRUE
  ShapeSel = "small"
INVARIANT ExportInv
INVARIANT MetaAcceptsItself
CHECK_DEADLOCK FALSE
