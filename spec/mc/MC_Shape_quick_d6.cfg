SPECIFICATION Spec
CONSTANTS
  D = 6
  Width = 2
  Downs = TRUE
  ShapeSel = "small"
INVARIANT ExportInv
INVARIANT MetaAcceptsItself
CHECK_DEADLOCK FALSE
