SPECIFICATION Spec
CONSTANTS
  D = 7
  Width = 1
  Downs = TRUE
  ShapeSel = "small"
INVARIANT ExportInv
INVARIANT MetaAcceptsItself
CHECK_DEADLOCK FALSE
