------------------------------ MODULE MC_UriDict ------------------------------
(***************************************************************************)
(* The resolver's store is a mapping keyed by NORMALISED URIs (C15 relies   *)
(* on it: a document supplied under "u#" is found when "u" is looked up).  *)
(* Specification: a plain function over Uri!NormDoc-style keys -- here the  *)
(* key of a URI text is the text without a bare trailing "#" (an empty      *)
(* fragment) and with the scheme in lower case.  The machine applies set /  *)
(* delete operations with differently spelled keys; after every step the    *)
(* observable behaviour (lookup of every spelling, length, key set) is      *)
(* exported and replayed on the real URIDict.                               *)
(***************************************************************************)
EXTENDS Uri, FiniteSets, TLC, Json

CONSTANT MaxOps
VARIABLES m, hist
vars == <<m, hist>>

\* spellings (texts): two documents x {plain, trailing #, upper-case scheme, with a real fragment}
A  == <<104,116,116,112,58,47,47,120,46,105,110,118,97,108,105,100,47,97>>     \* http://x.invalid/a
B  == <<104,116,116,112,58,47,47,120,46,105,110,118,97,108,105,100,47,98>>     \* http://x.invalid/b
Up(u) == <<72, 84, 84, 80>> \o SubSeq(u, 5, Len(u))                              \* HTTP://...
Spellings == { A, A \o <<35>>, Up(A), A \o <<35, 102>>, B, B \o <<35>>, <<>> , <<35>> }
\* the key: scheme lower-cased, a bare trailing "#" dropped; a non-empty fragment is part of the key
KeyOf(u) == LET p == Parse(u) IN
            Recompose([p EXCEPT !.s = [k \in DOMAIN p.s |-> Lower(p.s[k])], !.hf = p.hf /\ p.f # <<>>])

Init == m = <<>> /\ hist = <<>>        \* m: function key -> value (small naturals)
Obs(mm) == [len |-> Cardinality(DOMAIN mm),
            get |-> [u \in Spellings |-> IF KeyOf(u) \in DOMAIN mm THEN mm[KeyOf(u)] ELSE -1]]
Set(u, v) == /\ Len(hist) < MaxOps
             /\ m' = [k \in DOMAIN m \cup {KeyOf(u)} |-> IF k = KeyOf(u) THEN v ELSE m[k]]
             /\ hist' = Append(hist, [op |-> "set", u |-> u, v |-> v, obs |-> Obs(m')])
Del(u) == /\ Len(hist) < MaxOps /\ KeyOf(u) \in DOMAIN m
          /\ m' = [k \in DOMAIN m \ {KeyOf(u)} |-> m[k]]
          /\ hist' = Append(hist, [op |-> "del", u |-> u, v |-> 0, obs |-> Obs(m')])
Next == \E u \in Spellings : (\E v \in {1, 2} : Set(u, v)) \/ Del(u)
Spec == Init /\ [][Next]_vars

\* spellings that differ only by a bare "#" or the case of the scheme are one key
Equivalent == KeyOf(A) = KeyOf(A \o <<35>>) /\ KeyOf(A) = KeyOf(Up(A)) /\ KeyOf(A) # KeyOf(A \o <<35, 102>>) /\ KeyOf(A) # KeyOf(B)
ExportInv == Len(hist) = MaxOps => PrintT(ToJson([h |-> [i \in DOMAIN hist |->
                [op |-> hist[i].op, u |-> hist[i].u, v |-> hist[i].v, len |-> hist[i].obs.len,
                 get |-> [u \in Spellings |-> <<u, hist[i].obs.get[u]>>]]]]))
=============================================================================
