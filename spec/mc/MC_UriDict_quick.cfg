SPECIFICATION Spec
CONSTANT MaxOps = 2
INVARIANT Equivalent
INVARIANT ExportInv
CHECK_DEADLOCK FALSE
