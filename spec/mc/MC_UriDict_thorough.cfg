SPECIFICATION Spec
CONSTANT MaxOps = 3
INVARIANT Equivalent
INVARIANT ExportInv
CHECK_DEADLOCK FALSE
