--------------------------- MODULE SchemaUniverse ---------------------------
(***************************************************************************)
(* The bounded universe of schemas and instances shared by the models of   *)
(* C01, C05, C06, C10 (DESIGN.md 5 C01): per draft, keyword-value pools    *)
(* built over a set of leaf subschemas, and a fixed instance list.         *)
(***************************************************************************)
EXTENDS Meta

Str(s) == JStr(s)
N0 == JInt(<<>>)  N1 == JInt(<<0>>)  N2 == JInt(<<1>>)  N3 == JInt(<<1, 0>>)
F1 == JFloat(FALSE, <<0>>)      \* 1.0
F15 == JFloat(FALSE, <<0, -1>>) \* 1.5
F05 == JFloat(FALSE, <<-1>>)    \* 0.5
NM1 == JNegInt(<<0>>)
BIG == JInt(<<53, 0>>)          \* 2^53 + 1
Arr(e) == JArr(e)
Obj1(k, v) == JObj(<<k>>, <<v>>)
Obj2(k1, v1, k2, v2) == JObj(<<k1, k2>>, <<v1, v2>>)
S_ab == <<97, 98>>  S_ba == <<98, 97>>  S_NB == <<128512>>      \* "ab" "ba" one non-BMP character

\* ---- instances (fixed list; verdict vectors are indexed by it) ----
Instances == <<
  JNull, JTrue, JFalse, N0, N1, NM1, N2, N3, F1, F15, BIG,
  Str(<<>>), Str(S_a), Str(S_b), Str(S_ab), Str(S_ba), Str(S_NB),
  Arr(<<>>), Arr(<<N1>>), Arr(<<N1, N2>>), Arr(<<N1, N1>>), Arr(<<Str(S_a)>>), Arr(<<N1, Str(S_a)>>),
  Arr(<<Arr(<<>>)>>), Arr(<<Arr(<<N1>>)>>), Arr(<<N1, N2, N3>>), Arr(<<JFalse, N0>>), Arr(<<N1, JTrue, F1>>),
  EmptyObj, Obj1(S_a, N1), Obj1(S_b, N1), Obj2(S_a, N1, S_b, N2), Obj1(S_ab, N1), Obj1(S_ba, N1),
  Obj1(S_a, Str(S_x)), Obj1(S_a, Obj1(S_a, N1)), Obj1(S_a, Arr(<<N1>>)),
  JObj(<<S_a, S_b, S_c>>, <<N1, N2, N3>>) >>

\* ---- leaf subschemas ----
TInt == Obj1(K_type, Str(T_integer))
TStr == Obj1(K_type, Str(T_string))
Min2 == Obj1(K_minimum, N2)
Enum1 == Obj1(K_enum, Arr(<<N1>>))
ReqA == Obj1(K_required, Arr(<<Str(S_a)>>))
Never(d) == IF d = 3 THEN Obj1(K_disallow, Str(T_any)) ELSE Obj1(K_not, EmptyObj)
Leaves(d) == {EmptyObj, TInt, TStr, Min2, Enum1, Never(d)}
              \cup (IF d >= 4 THEN {ReqA} ELSE {})
              \cup (IF d >= 6 THEN {JTrue, JFalse} ELSE {})
\* a smaller set for the n-ary positions
Leaves2(d) == {EmptyObj, TInt, Min2, Never(d)} \cup (IF d >= 6 THEN {JFalse} ELSE {})

PatTexts == { <<97>>, <<94, 97>>, <<97, 36>>, <<94, 97, 43, 36>>, <<98, 124, 99>>, <<94, 46, 36>>,
              <<91, 48, 45, 57, 93>>, <<>> }
\* the regex table of the universe: AST for each pattern text (checked against Render by PatsOK)
Lit(c) == [r |-> "lit", c |-> c]
Cat(a) == [r |-> "cat", a |-> a]
UPats == <<
  [text |-> <<97>>, ast |-> Lit(97)],
  [text |-> <<94, 97>>, ast |-> Cat(<<[r |-> "bol"], Lit(97)>>)],
  [text |-> <<97, 36>>, ast |-> Cat(<<Lit(97), [r |-> "eol"]>>)],
  [text |-> <<94, 97, 43, 36>>, ast |-> Cat(<<[r |-> "bol"], [r |-> "plus", x |-> Lit(97)], [r |-> "eol"]>>)],
  [text |-> <<98, 124, 99>>, ast |-> [r |-> "alt", a |-> <<Lit(98), Lit(99)>>]],
  [text |-> <<94, 46, 36>>, ast |-> Cat(<<[r |-> "bol"], [r |-> "any"], [r |-> "eol"]>>)],
  [text |-> <<91, 48, 45, 57, 93>>, ast |-> [r |-> "cls", neg |-> FALSE, rs |-> <<<<48, 57>>>>]],
  [text |-> <<>>, ast |-> Cat(<<>>)] >>

\* ---- keyword-value pools:  sets of <<keyword, value>> ----
Vals(k, vs) == { <<k, v>> : v \in vs }

TypePool(d) ==
  Vals(K_type, { Str(T_integer), Str(T_number), Str(T_string), Str(T_array), Str(T_object), Str(T_boolean),
                 Str(T_null), Arr(<<Str(T_integer), Str(T_string)>>) }
               \cup (IF d = 3 THEN { Str(T_any), Arr(<<Min2, Str(T_string)>>), Arr(<<Str(T_string), Min2>>), Arr(<<Str(T_null), TInt, Str(T_string), Min2>>),
                                Arr(<<TInt, Enum1>>), Arr(<<>>) } ELSE {}))

ValuePool(d) ==
  Vals(K_enum, { Arr(<<N1>>), Arr(<<N1, Str(S_a)>>), Arr(<<Arr(<<N1>>)>>), Arr(<<Obj1(S_a, N1)>>), Arr(<<JNull, JTrue>>) }
               \cup (IF d >= 6 THEN {Arr(<<>>)} ELSE {}))
  \cup (IF d >= 6 THEN Vals(K_const, { N1, Str(S_a), Arr(<<N1>>), Obj1(S_a, N1), JNull, JFalse }) ELSE {})

NumPool(d) ==
  Vals(K_minimum, {N1, N2, F15}) \cup Vals(K_maximum, {N1, N2, F15})
  \cup (IF d <= 4 THEN Vals(K_exclusiveMinimum, {JTrue, JFalse}) \cup Vals(K_exclusiveMaximum, {JTrue, JFalse})
        ELSE Vals(K_exclusiveMinimum, {N1, N2}) \cup Vals(K_exclusiveMaximum, {N1, N2}))
  \cup Vals(IF d = 3 THEN K_divisibleBy ELSE K_multipleOf, {N2, F05})

StrPool(d) ==
  Vals(K_minLength, {N1, N2}) \cup Vals(K_maxLength, {N0, N1})
  \cup Vals(K_pattern, { Str(p) : p \in PatTexts })

ArrPool(d) ==
  Vals(K_minItems, {N1, N2}) \cup Vals(K_maxItems, {N0, N1, N2}) \cup Vals(K_uniqueItems, {JTrue, JFalse})
  \cup Vals(K_items, Leaves(d) \cup { Arr(<<a>>) : a \in Leaves2(d) } \cup { Arr(<<a, b>>) : a, b \in Leaves2(d) }
                     \cup {Arr(<<>>)})
  \cup Vals(K_additionalItems, {JFalse, JTrue, TInt, Never(d), EmptyObj})
  \cup (IF d >= 6 THEN Vals(K_contains, Leaves(d)) ELSE {})

ReqB == Obj1(K_minProperties, N2)
TypeObjMin == Obj1(K_maxProperties, N1)

ObjPool(d) ==
  (IF d >= 4 THEN Vals(K_minProperties, {N1, N2}) \cup Vals(K_maxProperties, {N0, N1})
                  \cup Vals(K_required, { Arr(<<Str(S_a)>>), Arr(<<Str(S_a), Str(S_b)>>), Arr(<<Str(S_c), Str(S_x)>>) }
                                        \cup (IF d >= 6 THEN {Arr(<<>>)} ELSE {}))
   ELSE {})
  \cup Vals(K_properties, { Obj1(S_a, l) : l \in Leaves(d) } \cup { Obj2(S_a, l, S_b, m) : l, m \in Leaves2(d) }
                          \cup {EmptyObj}
                          \cup (IF d = 3 THEN { Obj1(S_c, Obj1(K_required, JTrue)),
                                                Obj2(S_c, Obj1(K_required, JTrue), S_x, Obj1(K_required, JTrue)),
                                                Obj1(S_a, Obj2(K_required, JTrue, K_type, Str(T_string))) } ELSE {}))
  \cup Vals(K_patternProperties, { Obj1(p, l) : p \in PatTexts, l \in Leaves2(d) }
                                 \cup { Obj2(<<97>>, TInt, <<98, 124, 99>>, Min2) })
  \cup Vals(K_additionalProperties, {JFalse, JTrue, TInt, Never(d), Min2, EmptyObj})
  \cup (IF d >= 6 THEN Vals(K_propertyNames, { Obj1(K_maxLength, N1), Obj1(K_pattern, Str(<<94, 97>>)), JFalse, JTrue,
                                               Obj1(K_enum, Arr(<<Str(S_a), Str(S_b)>>)) }) ELSE {})
  \cup Vals(K_dependencies, { Obj1(S_a, Arr(<<Str(S_b)>>)), Obj1(S_a, Arr(<<Str(S_b), Str(S_c)>>)),
                              Obj1(S_a, ReqB), Obj2(S_a, Arr(<<Str(S_c)>>), S_b, TypeObjMin) }
                            \cup (IF d = 3 THEN { Obj1(S_a, Str(S_b)) } ELSE {})
                            \cup (IF d >= 6 THEN { Obj1(S_a, JFalse), Obj1(S_a, Arr(<<>>)) } ELSE {}))

Seqs123(L) == { <<a>> : a \in L } \cup { <<a, b>> : a, b \in L } \cup { <<a, b, c>> : a \in {TInt, EmptyObj}, b \in {Min2, EmptyObj}, c \in L }

LogicPool(d) ==
  IF d = 3
  THEN Vals(K_disallow, { Str(T_integer), Str(T_any), Arr(<<Str(T_string), Str(T_integer)>>), Arr(<<Min2, Str(T_string)>>), Arr(<<Str(T_string), Min2>>), Arr(<<>>) })
       \cup Vals(K_extends, Leaves(d) \cup { Arr(s) : s \in Seqs123(Leaves2(d)) } \cup {Arr(<<>>)})
  ELSE Vals(K_allOf, { Arr(s) : s \in Seqs123(Leaves2(d)) })
       \cup Vals(K_anyOf, { Arr(s) : s \in Seqs123(Leaves2(d)) })
       \cup Vals(K_oneOf, { Arr(s) : s \in Seqs123(Leaves2(d)) })
       \cup Vals(K_not, Leaves(d))
       \cup (IF d = 7 THEN Vals(K_if, Leaves(d)) \cup Vals(K_then, Leaves2(d)) \cup Vals(K_else, Leaves2(d)) ELSE {})

\* keywords of the OTHER drafts, with values that would bite if the draft honoured them (it must not: C01, C10)
OtherDraftPool(d) ==
  (IF d >= 4 THEN { <<K_divisibleBy, N2>>, <<K_disallow, Str(T_integer)>>, <<K_extends, TStr>> }
   ELSE { <<K_multipleOf, N2>>, <<K_not, TInt>>, <<K_allOf, Arr(<<TStr>>)>>, <<K_anyOf, Arr(<<TStr>>)>>, <<K_oneOf, Arr(<<TStr>>)>>,
          <<K_minProperties, N2>>, <<K_maxProperties, N0>> })
  \cup (IF d <= 4 THEN { <<K_const, N1>>, <<K_contains, TStr>>, <<K_propertyNames, Obj1(K_maxLength, N0)>> } ELSE {})
  \cup (IF d <= 6 THEN { <<K_then, Never(d)>>, <<K_else, Never(d)>> } ELSE {})

Pool(d) == TypePool(d) \cup ValuePool(d) \cup NumPool(d) \cup StrPool(d) \cup ArrPool(d) \cup ObjPool(d) \cup LogicPool(d)
           \cup OtherDraftPool(d)

\* the interacting families (all members may be combined with one another)
Families(d) == {
  {K_properties, K_patternProperties, K_additionalProperties},
  {K_items, K_additionalItems} \cup (IF d >= 6 THEN {K_contains} ELSE {}),
  {K_minimum, K_maximum, K_exclusiveMinimum, K_exclusiveMaximum},
  IF d = 7 THEN {K_if, K_then, K_else} ELSE IF d = 3 THEN {K_type, K_disallow, K_extends} ELSE {K_allOf, K_anyOf, K_not} }

UEnv(S) == Env1(S, <<>>, UPats)
=============================================================================
