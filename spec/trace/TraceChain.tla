----------------------------- MODULE TraceChain -----------------------------
(***************************************************************************)
(* The trace-validation chain shared by every functional trace spec        *)
(* (DESIGN.md 4.3 M4 / A.5).  A module that INSTANCEs or EXTENDS this one  *)
(* defines  Clauses(r) : the set of names of the property clauses that     *)
(* record r violates.  One record is consumed per step; the verdict is     *)
(* total (all failing records, each naming the clauses) and is written to  *)
(* OUT_FILE by the final step.  Acceptance is the chain running to its end:*)
(* POSTCONDITION Accepted, deadlock checking off, one worker.              *)
(***************************************************************************)
EXTENDS Integers, Sequences, TLC, TLCExt, Json, IOUtils

CONSTANT Clauses(_)

Recs == ndJsonDeserialize(IOEnv.TRACE_FILE)

VARIABLES l, bad
tvars == <<l, bad>>

TInit == l = 1 /\ bad = <<>>

Step == /\ l <= Len(Recs)
        /\ LET c == Clauses(Recs[l]) IN
             bad' = IF c = {} THEN bad ELSE Append(bad, [id |-> Recs[l].id, clauses |-> c])
        /\ l' = l + 1

Finish == /\ l = Len(Recs) + 1
          /\ JsonSerialize(IOEnv.OUT_FILE, [checked |-> Len(Recs), bad |-> bad])
          /\ l' = l + 1
          /\ UNCHANGED bad

TNext == Step \/ Finish
TSpec == TInit /\ [][TNext]_tvars

Accepted == TLCGet("stats").diameter = Len(Recs) + 2
=============================================================================
