----------------------------- MODULE TraceChain -----------------------------
(***************************************************************************)
(* The trace-validation chain shared by every functional trace spec        *)
(* (DESIGN.md 4.3 M4 / A.5).  A module that INSTANCEs or EXTENDS this one  *)
(* defines  Clauses(r) : the set of names of the property clauses that     *)
(* record r violates.  One record is consumed per step; the verdict is     *)
(* total (all failing records, each naming the clauses) and is written to  *)
(* OUT_FILE by the final step.  Acceptance is the chain running to its end:*)
(* POSTCONDITION Accepted, deadlock checking off, one worker.              *)
(***************************************************************************)
EXTENDS Integers, Sequences, TLC, TLCExt, Json, IOUtils

CONSTANT Clauses(_)

\* The trace is parsed once (in the initial predicate) and kept in a TLC register: a definition
\*   Recs == ndJsonDeserialize(...)
\* reached through INSTANCE is re-evaluated at every use, which made validation quadratic in the trace length.
Recs == TLCGet(7)

VARIABLES l, bad
tvars == <<l, bad>>

TInit == TLCSet(7, ndJsonDeserialize(IOEnv.TRACE_FILE)) /\ l = 1 /\ bad = <<>>

Step == /\ l <= Len(Recs)
        /\ LET c == Clauses(Recs[l]) IN
             bad' = IF c = {} THEN bad ELSE Append(bad, [id |-> Recs[l].id, clauses |-> c])
        /\ l' = l + 1

Finish == /\ l = Len(Recs) + 1
          /\ JsonSerialize(IOEnv.OUT_FILE, [checked |-> Len(Recs), bad |-> bad])
          /\ l' = l + 1
          /\ UNCHANGED bad

TNext == Step \/ Finish
TSpec == TInit /\ [][TNext]_tvars

Accepted == TLCGet("stats").diameter = Len(Recs) + 2
=============================================================================
