------------------------------ MODULE Trace_C04 ------------------------------
(***************************************************************************)
(* Trace validation for C04.  Record kinds:                                *)
(*  "valid-schema":  iv1, iv2 (is_valid twice), e1, e2 (iter_errors twice),*)
(*     vr (what validate() raised: [k |-> "none"|"validation"|"other", e]),*)
(*     mr (module validate()), bm (best_match(e1): [k |-> "none"|"err", e])*)
(*     mr2 (module validate() again)                                       *)
(*  "invalid-schema": cs (what check_schema raised), mf (first error of the*)
(*     metaschema validation), mr, mr2, spy (number of instance accesses), *)
(*     csv, mfv, mrv: the values (instance, keyword value, schema; tagged  *)
(*     JSON or "unset") carried by cs, mf, mr                              *)
(***************************************************************************)
EXTENDS EntryPoints, TLC

SameRaise(a, b) == a.k = b.k /\ (a.k \in {"validation", "schema", "err"} => EqErr(a.e, b.e))

ClausesOf(r) ==
  IF r.kind = "valid-schema"
  THEN (IF r.iv1 = (r.e1 = <<>>) /\ r.iv2 = r.iv1 THEN {} ELSE {"isvalid_iff_noerrors"})
       \cup (IF EqErrSeq(r.e1, r.e2) THEN {} ELSE {"repeat_iter_errors"})
       \cup (IF r.e1 = <<>> THEN (IF r.vr.k = "none" THEN {} ELSE {"validate_raises_on_valid"})
             ELSE IF r.vr.k = "validation" /\ EqErr(r.vr.e, r.e1[1]) THEN {} ELSE {"validate_first"})
       \cup (IF r.e1 = <<>> THEN (IF r.mr.k = "none" THEN {} ELSE {"module_raises_on_valid"})
             ELSE IF r.mr.k # "validation" THEN {"module_no_validation_error"}
             ELSE (IF IsBestCandidate(r.mr.e, r.e1) THEN {} ELSE {"module_not_best_candidate"})
                  \cup (IF r.bm.k = "err" /\ EqErr(r.bm.e, r.mr.e) THEN {} ELSE {"module_not_best_match"}))
       \cup (IF SameRaise(r.mr, r.mr2) THEN {} ELSE {"repeat_module_validate"})
  ELSE (IF r.cs.k # "schema" THEN {"~c04:not_invalid"}
        ELSE (IF r.mr.k = "schema" /\ EqErr(r.mr.e, r.cs.e) THEN {} ELSE {"schemaerror_first"})
             \cup (IF r.mf.k = "err" /\ EqErr(r.mf.e, r.cs.e) THEN {} ELSE {"schemaerror_fields"})
             \cup (IF r.csv = r.mfv /\ r.mrv = r.mfv THEN {} ELSE {"schemaerror_values"})
             \cup (IF r.spy = 0 THEN {} ELSE {"instance_touched_before_schemaerror"})
             \cup (IF SameRaise(r.mr, r.mr2) THEN {} ELSE {"repeat_module_validate"}))

VARIABLES l, bad
INSTANCE TraceChain WITH Clauses <- ClausesOf
=============================================================================
