------------------------------ MODULE Trace_C08 ------------------------------
(***************************************************************************)
(* Trace validation for C08: records of what the real enum / const /       *)
(* uniqueItems keywords answered, judged against JsonEq.                   *)
(*   kind "pair": a, b, c (const verdicts per draft 6,7), e (enum [a] on b *)
(*                per draft 3,4,6,7), u (uniqueItems on [a,b] per draft)   *)
(*   kind "enum": cs (sequence), x, e (verdicts of enum cs on x per draft) *)
(*   kind "arr" : arr, u (uniqueItems verdicts per draft)                  *)
(***************************************************************************)
EXTENDS Equality

AllAre(seq, v) == \A i \in DOMAIN seq : seq[i] = v

ClausesOf(r) ==
  CASE r.kind = "pair" ->
         LET eq == JsonEq(r.a, r.b) IN
           (IF AllAre(r.c, ConstAccepts(r.a, r.b)) THEN {} ELSE {"const"})
           \cup (IF AllAre(r.e, EnumAccepts(<<r.a>>, r.b)) THEN {} ELSE {"enum"})
           \cup (IF AllAre(r.u, UniqueAccepts(JArr(<<r.a, r.b>>))) THEN {} ELSE {"uniqueItems"})
           \cup (IF Agree(r.a, r.b) THEN {} ELSE {"spec_agree"})
    [] r.kind = "enum" -> IF AllAre(r.e, EnumAccepts(r.cs, r.x)) THEN {} ELSE {"enum"}
    [] r.kind = "arr"  -> IF AllAre(r.u, UniqueAccepts(r.arr)) THEN {} ELSE {"uniqueItems"}

VARIABLES l, bad
INSTANCE TraceChain WITH Clauses <- ClausesOf
=============================================================================
