------------------------------ MODULE Trace_C09 ------------------------------
(***************************************************************************)
(* Trace validation for C09.  A record holds an instance x, a bound b and, *)
(* per draft (3,4,6,7), the observed outcome of the five keyword forms     *)
(*   <<minimum, exclusive minimum, maximum, exclusive maximum, multipleOf, *)
(*     maximum next to a far exclusiveMaximum, minimum next to a far        *)
(*     exclusiveMinimum (drafts 6/7)>>                                      *)
(* each "valid" | "invalid" | "raise" | "n/a" (form not applicable: the    *)
(* schema is not accepted, e.g. multipleOf <= 0).  Optional witness k, r   *)
(* (bit sequences) with |x| = k*|b| + r, 0 <= r < |b| for dense operands.  *)
(* Clause names starting with "~" are skips, not violations.               *)
(***************************************************************************)
EXTENDS Numeric

Out(ok) == IF ok THEN "valid" ELSE "invalid"
Pos(n)  == ~IsZero(n) /\ ~n.neg

Col(r, j) == { r.obs[d][j] : d \in DOMAIN r.obs }
Only(S, v) == S \subseteq {v}

MultExpected(r) ==
  IF ~Pos(r.b) THEN {"n/a"}
  ELSE IF r.hasw
       THEN IF ~WitnessOK(r.x, r.b, r.k, r.r) THEN {"badwitness"}
            ELSE IF ExactMultDomain(r.x, r.b) THEN {Out(r.r = <<>>)} ELSE {"valid", "invalid"}
       ELSE IF ~CanDivide(r.x, r.b) THEN {"undecided"}
            ELSE IF ExactMultDomain(r.x, r.b) THEN {Out(MultOK(r.x, r.b))} ELSE {"valid", "invalid"}

ClausesOf(r) ==
  LET me == MultExpected(r) IN
    (IF Only(Col(r, 1), Out(MinOK(r.x, r.b, FALSE))) THEN {} ELSE {"minimum"})
    \cup (IF Only(Col(r, 2), Out(MinOK(r.x, r.b, TRUE))) THEN {} ELSE {"exclusiveMinimum"})
    \cup (IF Only(Col(r, 3), Out(MaxOK(r.x, r.b, FALSE))) THEN {} ELSE {"maximum"})
    \cup (IF Only(Col(r, 4), Out(MaxOK(r.x, r.b, TRUE))) THEN {} ELSE {"exclusiveMaximum"})
    \cup (IF Col(r, 6) \subseteq {Out(MaxPairOK(r.x, r.b)), "n/a"} THEN {} ELSE {"maximum_with_exclusiveMaximum"})
    \cup (IF Col(r, 7) \subseteq {Out(MinPairOK(r.x, r.b)), "n/a"} THEN {} ELSE {"minimum_with_exclusiveMinimum"})
    \* the exclusive bounds inside a NESTED subschema ({"items": {...}} on [x]): the flag / keyword read is the
    \* subschema's own
    \cup (IF Only(Col(r, 8), Out(MinOK(r.x, r.b, TRUE))) THEN {} ELSE {"nested_exclusiveMinimum"})
    \cup (IF Only(Col(r, 9), Out(MaxOK(r.x, r.b, TRUE))) THEN {} ELSE {"nested_exclusiveMaximum"})
    \cup (IF "raise" \in Col(r, 5) THEN {"multipleOf_raises"} ELSE {})
    \cup (IF me = {"undecided"} THEN {"~undecided"}
          ELSE IF me = {"badwitness"} THEN {"~badwitness"}
          ELSE IF (Col(r, 5) \ {"raise"}) \subseteq me THEN {} ELSE {"multipleOf"})

VARIABLES l, bad
INSTANCE TraceChain WITH Clauses <- ClausesOf
=============================================================================
