------------------------------ MODULE Trace_C13 ------------------------------
(***************************************************************************)
(* A record: fmt (the grammar the registered name stands for: "ipv4",      *)
(* "ipv6", "date", "email", or "none" when only the never-raises half is   *)
(* claimed), s (code points), out ("true" | "false" | the class of an      *)
(* escaping exception), chk ("ok" | "formaterror" | an exception class:    *)
(* what check() did).                                                      *)
(***************************************************************************)
EXTENDS FormatGrammar, TLC

ClausesOf(r) ==
  (IF r.out \in {"true", "false"} THEN {} ELSE {"conforms_raises"})
  \cup (IF r.chk \in {"ok", "formaterror"} THEN {} ELSE {"check_raises_other"})
  \cup (IF r.out \in {"true", "false"} /\ r.chk \in {"ok", "formaterror"} /\ ((r.out = "true") # (r.chk = "ok"))
        THEN {"conforms_disagrees_with_check"} ELSE {})
  \cup (IF r.fmt \in GrammarFormats /\ r.out \in {"true", "false"} /\ (r.fmt # "date" \/ DateClaimed(r.s))
           /\ ((r.out = "true") # InGrammar(r.fmt, r.s))
        THEN {"grammar"} ELSE {})

VARIABLES l, bad
INSTANCE TraceChain WITH Clauses <- ClausesOf
=============================================================================
