------------------------------ MODULE Trace_C14 ------------------------------
(***************************************************************************)
(* Trace validation for C14: doc, frag (text of the URI fragment without   *)
(* "#"), out ("value" | "referror" | "other"), v (the value returned).     *)
(***************************************************************************)
EXTENDS Pointer, TLC

ClausesOf(r) ==
  LET x == ResolveFragment(r.doc, r.frag) IN
  IF ~x.dom THEN {"~ood"}
  ELSE IF r.out = "other" THEN {"raises_other"}
  ELSE IF x.ok THEN (IF r.out # "value" THEN {"should_resolve"} ELSE IF r.v = x.v THEN {} ELSE {"wrong_value"})
  ELSE (IF r.out = "referror" THEN {} ELSE {"should_fail"})

VARIABLES l, bad
INSTANCE TraceChain WITH Clauses <- ClausesOf
=============================================================================
