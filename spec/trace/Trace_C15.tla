------------------------------ MODULE Trace_C15 ------------------------------
(***************************************************************************)
(* A record is one whole history observed on a real RefResolver:           *)
(*   cr, kind, hm (sequence of <<doc, mode>>), local (sequence of docs),   *)
(*   ops: sequence of [doc, frag, res, nfetch, store (sequence of docs),   *)
(*        calls (the documents the handler was called for, so far)]        *)
(* The specification is run along the history (Resolver!ResolveF); every   *)
(* step must show the answer, the handler log and the store the model      *)
(* computes, and the invariants of C15 must hold in every recorded state.  *)
(***************************************************************************)
EXTENDS ResolverFn, TLC

SeqToSet(s) == { s[i] : i \in DOMAIN s }
HmOf(r) == [d \in { r.hm[i][1] : i \in DOMAIN r.hm } |-> (CHOOSE i \in DOMAIN r.hm : r.hm[i][1] = d) ]
ModeOf(r, d) == r.hm[CHOOSE i \in DOMAIN r.hm : r.hm[i][1] = d][2]

\* the set of model states that explain the history up to step k-1 is carried along; a step is explained when
\* some possible outcome shows the observed answer, store and handler log (with caching off the model leaves
\* open whether an equivalent spelling hits the URL cache, hence a set)
Explains(cfg, x, op) ==
  /\ x.res = op.res
  /\ x.st.store = SeqToSet(op.store)
  /\ [i \in DOMAIN x.st.fetches |-> x.st.fetches[i][1]] = op.calls
RECURSIVE Walk(_, _, _, _)
Walk(r, cfg, S, k) ==
  IF k > Len(r.ops) THEN {}
  ELSE LET op == r.ops[k]
           u == [doc |-> op.doc, frag |-> op.frag]
           T == { x.st : x \in { y \in UNION { Outcomes(cfg, st, u) : st \in S } : Explains(cfg, y, op) } }
       IN  \* the property's own clauses, evaluated on the OBSERVED handler log and store
           (IF cfg.cr /\ \E d \in SeqToSet(r.remote) : \E st \in S :
                 \E i \in DOMAIN st.fetches : st.fetches[i][1] = d /\ st.fetches[i][2]
                                               /\ Len(op.calls) > Len(st.fetches) /\ op.calls[Len(op.calls)] = d
            THEN {"fetched_again_after_success"} ELSE {})
           \cup (IF ~cfg.cr /\ SeqToSet(op.store) # SeqToSet(r.local) THEN {"store_grew"} ELSE {})
           \cup (IF \E i \in DOMAIN op.calls : op.calls[i] \in SeqToSet(r.local) THEN {"local_fetched"} ELSE {})
           \cup (IF T = {} THEN {"unexplained_step"} ELSE Walk(r, cfg, T, k + 1))

ClausesOf(r) ==
  LET cfg == [cr |-> r.cr, kind |-> r.kind, hmode |-> [d \in SeqToSet(r.remote) |-> ModeOf(r, d)], noptr |-> SeqToSet(r.noptr)]
      st0 == [store |-> SeqToSet(r.local), ucache |-> {}, fetches |-> <<>>,
              pending |-> { d \in SeqToSet(r.remote) : ModeOf(r, d) = "failonce" }]
  IN  Walk(r, cfg, {st0}, 1)

VARIABLES l, bad
INSTANCE TraceChain WITH Clauses <- ClausesOf
=============================================================================
