------------------------------ MODULE Trace_C17 ------------------------------
(***************************************************************************)
(* A record: order (errors in arrival order: [p, kw]), raised ("none" or   *)
(* the exception class ErrorTree(errors) raised), nodes (the observed tree *)
(* projected per reachable node: [p, kws, kids, total, len, iter, found]), *)
(* idx (observations of indexing instance elements that have no errors:    *)
(* [p, k, out] with out "empty" | "nonempty" | exception class).           *)
(***************************************************************************)
EXTENDS ErrorTree, TLC

SeqSet(s) == { s[i] : i \in DOMAIN s }
ClausesOf(r) ==
  IF r.raised # "none" THEN {"constructor_raises"}
  ELSE LET A == SeqSet(r.order)
           want == PathPrefixes(A) \cup {<<>>}
           seen == { r.nodes[i].p : i \in DOMAIN r.nodes }
       IN
    (IF seen = want THEN {} ELSE {"nodes"})
    \cup UNION { LET n == r.nodes[i] IN
                 (IF SeqSet(n.kws) = KwsAt(A, n.p) THEN {} ELSE {"errors_at_node"})
                 \cup (IF SeqSet(n.kids) = ChildKeys(A, n.p) /\ SeqSet(n.iter) = ChildKeys(A, n.p) THEN {} ELSE {"children"})
                 \cup (IF n.total = Total(A, n.p) /\ n.len = n.total THEN {} ELSE {"total_errors"})
                 \cup (IF n.found THEN {} ELSE {"error_not_at_its_path"})
               : i \in DOMAIN r.nodes }
    \cup (IF \A i \in DOMAIN r.idx : r.idx[i].out = "empty" THEN {} ELSE {"index_error_free_element"})

VARIABLES l, bad
INSTANCE TraceChain WITH Clauses <- ClausesOf
=============================================================================
