------------------------------ MODULE Trace_C19 ------------------------------
(***************************************************************************)
(* A record: schema, insts (kinds [k, n]), pretty, code, err, out as parsed*)
(* back from a real CLI run; the run must be the one Cli!CliRun computes   *)
(* and satisfy the property's clauses.                                     *)
(***************************************************************************)
EXTENDS Cli, TLC

ClausesOf(r) ==
  LET want == CliRun(r.schema, r.insts, r.pretty)
      got == [code |-> r.code, err |-> r.err, out |-> r.out] IN
  (IF (r.code = 0) = (want.code = 0) THEN {} ELSE {"exit_status"})
  \cup (IF r.err = want.err THEN {} ELSE {"stderr_records"})
  \cup (IF r.out = want.out THEN {} ELSE {"stdout_records"})
  \cup (IF ExitZeroIff(r.schema, r.insts, got) THEN {} ELSE {"exit_zero_iff"})

VARIABLES l, bad
INSTANCE TraceChain WITH Clauses <- ClausesOf
=============================================================================
