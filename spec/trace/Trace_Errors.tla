----------------------------- MODULE Trace_Errors -----------------------------
(***************************************************************************)
(* Trace validation of recorded error collections (C05, C06, C10).         *)
(* A record: d, S, I, base, pats, uselib, errs (observed errors of the     *)
(* whole schema), hasrestr/restr (per active keyword k: the restricted     *)
(* schema rs the harness used and the observed errors of it), loc (errors  *)
(* carry inst/kwval/sch/jp for C06), and for C10 hasalt/alt (a second      *)
(* schema S2 = S with foreign keywords inserted, with its observed errors).*)
(* Clause names: "c05:...", "c06:...", "c10:..."; "~..." are skips.        *)
(***************************************************************************)
EXTENDS RefTransparency, Meta, TLC

EnvOf(r, S) == EnvN(S, r.base, r.more \o (IF r.uselib THEN Lib ELSE <<>>), r.pats)

ObsKw(o) == IF o.none THEN <<>> ELSE o.kw

\* specification error vs observed error; observed vs observed (with message hash)
RECURSIVE EqSO(_, _)
RECURSIVE BagSO(_, _)
EqSO(e, o) == e.kw = ObsKw(o) /\ e.ip = o.ip /\ e.sp = o.sp /\ BagSO(e.ctx, o.ctx)
BagSO(es, os) == /\ Len(es) = Len(os)
                 /\ \A k \in DOMAIN es : Cardinality({ j \in DOMAIN es : ErrEq(es[j], es[k]) })
                                         = Cardinality({ j \in DOMAIN os : EqSO(es[k], os[j]) })
RECURSIVE EqOO(_, _, _)
RECURSIVE BagOO(_, _, _)
EqOO(a, b, m) == a.none = b.none /\ a.kw = b.kw /\ a.ip = b.ip /\ a.sp = b.sp /\ (m => a.msg = b.msg)
                 /\ BagOO(a.ctx, b.ctx, m)
BagOO(as, bs, m) == /\ Len(as) = Len(bs)
                    /\ \A k \in DOMAIN as : Cardinality({ j \in DOMAIN as : EqOO(as[j], as[k], m) })
                                            = Cardinality({ j \in DOMAIN bs : EqOO(as[k], bs[j], m) })

ObsOfKw(os, k) == SelectSeq(os, LAMBDA o : AttrOfPath(o.sp) = k)

C05Clauses(r, res) ==
  (IF BagSO(res.errs, r.errs) THEN {} ELSE {"c05:spec_bag"})
  \cup (IF ~r.hasrestr \/ ~IsObj(r.S) THEN {}
        ELSE IF { r.restr[j].k : j \in DOMAIN r.restr } # Active(r.d, r.S)
                \/ \E j \in DOMAIN r.restr : r.restr[j].rs # Restr(r.d, r.S, r.restr[j].k)
             THEN {"~c05:badrestr"}
        ELSE (IF \A j \in DOMAIN r.restr :
                   BagOO(ObsOfKw(r.errs, r.restr[j].k), ObsOfKw(r.restr[j].errs, r.restr[j].k), TRUE)
              THEN {} ELSE {"c05:union"})
             \cup (IF \A j \in DOMAIN r.errs : AttrOfPath(r.errs[j].sp) \in Active(r.d, r.S) THEN {} ELSE {"c05:stray"}))

\* every error of the forest (the yielded errors and, recursively, their contexts)
RECURSIVE Forest(_)
Forest(es) == UNION { {es[j]} \cup Forest(es[j].ctx) : j \in DOMAIN es }
\* two observations of one located error
SameLocated(a, b) == /\ a.none = b.none /\ a.kw = b.kw /\ a.ip = b.ip /\ a.sp = b.sp /\ a.msg = b.msg
                     /\ a.aip = b.aip /\ a.asp = b.asp /\ a.jp = b.jp /\ a.inst = b.inst /\ a.kwval = b.kwval
C06Clauses(r) ==
  IF ~r.loc THEN {}
  ELSE { "c06:" \o c : c \in AllLocClauses(r.d, EnvOf(r, r.S), r.S, r.I, r.errs, <<>>, <<>>) }
       \* r.bm: what best_match returned when fed the lazy iterator (the error jsonschema.validate() raises): a
       \* context-free error of the forest, locating itself exactly as that error does when found by walking the list
       \cup (IF \A k \in DOMAIN r.bm : r.bm[k].ctx = <<>> /\ \E e \in Forest(r.errs) : SameLocated(e, r.bm[k])
             THEN {} ELSE {"c06:best_match_location"})

\* S2 is S with members inserted whose names the draft does not define (at any depth); compared structurally:
\* objects may gain members named in Foreign; everything else equal
AllKw == UNION { Keywords(d) : d \in {3, 4, 6, 7} }
ForeignNames(d) == { k \in AllKw : k \notin Keywords(d) }   \* other-draft keywords; arbitrary names are judged below
IsInert(d, k) == k \notin Keywords(d) /\ k # IdKw(d) /\ k # K_required
                 /\ ~(d = 7 /\ k \in {K_then, K_else}) /\ ~(d <= 4 /\ k \in {K_exclusiveMinimum, K_exclusiveMaximum})
\* b is schema a with inert members inserted into (sub)schema objects, at any depth.  Only schema positions may
\* gain members: a new member of a `properties` map would be a new property, not a foreign keyword.
SchemaMapKws   == {K_properties, K_patternProperties, K_dependencies, K_definitions}
SchemaOrSeqKws == {K_items, K_extends, K_type, K_disallow, K_allOf, K_anyOf, K_oneOf, K_additionalItems,
                   K_additionalProperties, K_not, K_contains, K_propertyNames, K_if, K_then, K_else}
RECURSIVE Inserted(_, _, _)
InsertedVal(d, kw, x, y) ==
  IF kw \in SchemaMapKws /\ IsObj(x) /\ IsObj(y)
  THEN x.k = y.k /\ \A i \in DOMAIN x.k : IF IsObj(x.v[i]) THEN Inserted(d, x.v[i], y.v[i]) ELSE x.v[i] = y.v[i]
  ELSE IF kw \in SchemaOrSeqKws
       THEN IF IsObj(x) THEN Inserted(d, x, y)
            ELSE IF IsArr(x) /\ IsArr(y)
                 THEN Len(x.e) = Len(y.e) /\ \A i \in DOMAIN x.e :
                        IF IsObj(x.e[i]) THEN Inserted(d, x.e[i], y.e[i]) ELSE x.e[i] = y.e[i]
            ELSE x = y
  ELSE x = y
Inserted(d, a, b) ==
  /\ IsObj(a) /\ IsObj(b)
  /\ \A i \in DOMAIN a.k : HasKey(b, a.k[i]) /\ InsertedVal(d, a.k[i], a.v[i], Get(b, a.k[i]))
  /\ \A j \in DOMAIN b.k : HasKey(a, b.k[j]) \/ IsInert(d, b.k[j])
  /\ \A i, j \in DOMAIN a.k : (i < j) => KeyIndex(b, a.k[i]) < KeyIndex(b, a.k[j])    \* order of old members kept

\* the part that needs no specification verdict at all: the two recorded error lists are compared with each other
C10Diff(r) ==
  IF ~r.hasalt THEN {}
  ELSE IF ~Inserted(r.d, r.S, r.alt.S) THEN {"~c10:notinsertion"}
  ELSE (IF BagOO(r.errs, r.alt.errs, FALSE) THEN {} ELSE {"c10:changed"})
       \* the old members keep their relative order in S2 (Inserted), so the errors are also reported in the same order
       \* (validate() raises the first of them)
       \cup (IF Len(r.errs) # Len(r.alt.errs) \/ \A k \in DOMAIN r.errs : EqOO(r.errs[k], r.alt.errs[k], FALSE)
             THEN {} ELSE {"c10:reordered"})
C10Clauses(r, res) ==
  IF ~r.hasalt \/ ~Inserted(r.d, r.S, r.alt.S) THEN {}
  ELSE LET res2 == Run(r.d, EnvOf(r, r.alt.S), r.alt.S, r.I) IN
       IF SameBag(res.errs, res2.errs) /\ res.exc = res2.exc THEN {} ELSE {"~c10:spec_changed"}

\* C02: the recorded errors of the schema with references, of its inlining as built by the harness (inl.S), and the
\* specification's inlining
RECURSIVE LocEqOO(_, _)
RECURSIVE LocBagOO(_, _)
LocEqOO(a, b) == a.none = b.none /\ a.kw = b.kw /\ a.ip = b.ip /\ LocBagOO(a.ctx, b.ctx)
LocBagOO(x, y) == /\ Len(x) = Len(y)
                  /\ \A i \in DOMAIN x : Cardinality({ j \in DOMAIN x : LocEqOO(x[j], x[i]) })
                                         = Cardinality({ j \in DOMAIN y : LocEqOO(y[j], x[i]) })
C02Clauses(r, res) ==
  IF ~r.hasinl THEN {}
  ELSE LET inl == Inline(r.d, EnvOf(r, r.S), r.S, FMAX) IN
       IF ~inl.ok THEN {"~c02:noinline"}
       ELSE LET si == Run(r.d, EnvFor(r.d, inl.v, r.pats), inl.v, r.I)
                sh == Run(r.d, EnvFor(r.d, r.inl.S, r.pats), r.inl.S, r.I)
            IN  (IF LocBag(res.errs, si.errs) THEN {} ELSE {"~c02:spec_not_transparent"})
                \cup (IF LocBag(si.errs, sh.errs) THEN {} ELSE {"~c02:badinline"})
                \cup (IF LocBagOO(r.errs, r.inl.errs) THEN {} ELSE {"c02:transparent"})

ClausesOf(r) ==
  LET env == EnvOf(r, r.S) IN
  IF ~PatsOK(env) THEN {"~badregex"}
  ELSE LET res == Run(r.d, env, r.S, r.I) IN
       \* (C10's comparison of the two recorded lists holds whatever the specification can or cannot say about S)
       C10Diff(r) \cup
       IF res.ood # {} THEN {"~ood"}
       ELSE IF res.exc # {} THEN (IF r.raised = "ref" /\ "ref" \in res.exc THEN {} ELSE {"~exc"})
       ELSE IF r.raised # "none" THEN {"c02:unexpected_" \o r.raised}
       ELSE C05Clauses(r, res) \cup C06Clauses(r) \cup C10Clauses(r, res) \cup C02Clauses(r, res)

VARIABLES l, bad
INSTANCE TraceChain WITH Clauses <- ClausesOf
=============================================================================
