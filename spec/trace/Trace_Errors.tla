----------------------------- MODULE Trace_Errors -----------------------------
(***************************************************************************)
(* Trace validation of recorded error collections (C05, C06, C10).         *)
(* A record: d, S, I, base, pats, uselib, errs (observed errors of the     *)
(* whole schema), hasrestr/restr (per active keyword k: the restricted     *)
(* schema rs the harness used and the observed errors of it), loc (errors  *)
(* carry inst/kwval/sch/jp for C06), and for C10 hasalt/alt (a second      *)
(* schema S2 = S with foreign keywords inserted, with its observed errors).*)
(* Clause names: "c05:...", "c06:...", "c10:..."; "~..." are skips.        *)
(***************************************************************************)
EXTENDS Locate, Meta, TLC

EnvOf(r, S) == EnvN(S, r.base, IF r.uselib THEN Lib ELSE <<>>, r.pats)

ObsKw(o) == IF o.none THEN <<>> ELSE o.kw

\* specification error vs observed error; observed vs observed (with message hash)
RECURSIVE EqSO(_, _)
RECURSIVE BagSO(_, _)
EqSO(e, o) == e.kw = ObsKw(o) /\ e.ip = o.ip /\ e.sp = o.sp /\ BagSO(e.ctx, o.ctx)
BagSO(es, os) == /\ Len(es) = Len(os)
                 /\ \A k \in DOMAIN es : Cardinality({ j \in DOMAIN es : ErrEq(es[j], es[k]) })
                                         = Cardinality({ j \in DOMAIN os : EqSO(es[k], os[j]) })
RECURSIVE EqOO(_, _, _)
RECURSIVE BagOO(_, _, _)
EqOO(a, b, m) == a.none = b.none /\ a.kw = b.kw /\ a.ip = b.ip /\ a.sp = b.sp /\ (m => a.msg = b.msg)
                 /\ BagOO(a.ctx, b.ctx, m)
BagOO(as, bs, m) == /\ Len(as) = Len(bs)
                    /\ \A k \in DOMAIN as : Cardinality({ j \in DOMAIN as : EqOO(as[j], as[k], m) })
                                            = Cardinality({ j \in DOMAIN bs : EqOO(as[k], bs[j], m) })

ObsOfKw(os, k) == SelectSeq(os, LAMBDA o : AttrOfPath(o.sp) = k)

C05Clauses(r, res) ==
  (IF BagSO(res.errs, r.errs) THEN {} ELSE {"c05:spec_bag"})
  \cup (IF ~r.hasrestr \/ ~IsObj(r.S) THEN {}
        ELSE IF { r.restr[j].k : j \in DOMAIN r.restr } # Active(r.d, r.S)
                \/ \E j \in DOMAIN r.restr : r.restr[j].rs # Restr(r.d, r.S, r.restr[j].k)
             THEN {"~c05:badrestr"}
        ELSE (IF \A j \in DOMAIN r.restr :
                   BagOO(ObsOfKw(r.errs, r.restr[j].k), ObsOfKw(r.restr[j].errs, r.restr[j].k), TRUE)
              THEN {} ELSE {"c05:union"})
             \cup (IF \A j \in DOMAIN r.errs : AttrOfPath(r.errs[j].sp) \in Active(r.d, r.S) THEN {} ELSE {"c05:stray"}))

C06Clauses(r) ==
  IF ~r.loc THEN {}
  ELSE { "c06:" \o c : c \in AllLocClauses(r.d, EnvOf(r, r.S), r.S, r.I, r.errs, <<>>, <<>>) }

\* S2 is S with members inserted whose names the draft does not define (at any depth); compared structurally:
\* objects may gain members named in Foreign; everything else equal
AllKw == UNION { Keywords(d) : d \in {3, 4, 6, 7} }
ForeignNames(d) == { k \in AllKw : k \notin Keywords(d) }   \* other-draft keywords; arbitrary names are judged below
IsInert(d, k) == k \notin Keywords(d) /\ k # IdKw(d) /\ k # K_required
                 /\ ~(d = 7 /\ k \in {K_then, K_else}) /\ ~(d <= 4 /\ k \in {K_exclusiveMinimum, K_exclusiveMaximum})
RECURSIVE Inserted(_, _, _)
Inserted(d, a, b) ==      \* b is a with inert members inserted into objects, at any depth
  IF a.t # b.t THEN FALSE
  ELSE IF IsObj(a)
       THEN /\ \A i \in DOMAIN a.k : HasKey(b, a.k[i]) /\ Inserted(d, a.v[i], Get(b, a.k[i]))
            /\ \A j \in DOMAIN b.k : HasKey(a, b.k[j]) \/ IsInert(d, b.k[j])
  ELSE IF IsArr(a) THEN Len(a.e) = Len(b.e) /\ \A i \in DOMAIN a.e : Inserted(d, a.e[i], b.e[i])
  ELSE a = b

C10Clauses(r, res) ==
  IF ~r.hasalt THEN {}
  ELSE IF ~Inserted(r.d, r.S, r.alt.S) THEN {"~c10:notinsertion"}
  ELSE (IF BagOO(r.errs, r.alt.errs, FALSE) THEN {} ELSE {"c10:changed"})
       \cup (LET res2 == Run(r.d, EnvOf(r, r.alt.S), r.alt.S, r.I) IN
             IF SameBag(res.errs, res2.errs) /\ res.exc = res2.exc THEN {} ELSE {"~c10:spec_changed"})

ClausesOf(r) ==
  LET env == EnvOf(r, r.S) IN
  IF ~PatsOK(env) THEN {"~badregex"}
  ELSE LET res == Run(r.d, env, r.S, r.I) IN
       IF res.ood # {} THEN {"~ood"}
       ELSE IF res.exc # {} THEN {"~exc"}
       ELSE C05Clauses(r, res) \cup C06Clauses(r) \cup C10Clauses(r, res)

VARIABLES l, bad
INSTANCE TraceChain WITH Clauses <- ClausesOf
=============================================================================
