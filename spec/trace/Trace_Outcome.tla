---------------------------- MODULE Trace_Outcome ----------------------------
(***************************************************************************)
(* Trace validation for C11 and C03.                                       *)
(*  kind "accept": d, S (candidate), out ("ok" | "schemaerror" | "other")  *)
(*      -- check_schema returns normally iff the bundled metaschema of the *)
(*      draft accepts S under the draft's own rules, else SchemaError.     *)
(*  kind "outcome": d, S (an accepted schema), I, base, pats, uselib,      *)
(*      obs: sequence of observed outcome classes ("valid", "invalid",     *)
(*      "ref", "type", or "crash") of the entry points x checker configs.  *)
(***************************************************************************)
EXTENDS Meta, TLC

EnvOf(r) == EnvN(r.S, r.base, IF r.uselib THEN Lib ELSE <<>>, r.pats)
Soft == {"inexact", "undecided", "regex", "format"}

ClausesOf(r) ==
  IF r.kind = "accept"
  THEN LET m == MetaRun(r.d, r.S) IN
       IF m.ood # {} \/ m.exc # {} THEN {"~c11:meta_undecided"}
       ELSE IF r.out = "other" THEN {"c11:raises_other"}
       ELSE IF (m.errs = <<>>) # (r.out = "ok") THEN {"c11:accept_mismatch"} ELSE {}
  ELSE LET env == EnvOf(r) IN
       IF ~PatsOK(env) THEN {"~badregex"}
       ELSE LET res == Run(r.d, env, r.S, r.I)
                hard == res.ood \ Soft
                allowed == {"valid", "invalid"} \cup res.exc
            IN  IF "loop" \in hard THEN {"~c03:illfounded"}
                ELSE IF "notschema" \in hard THEN {"~c03:target_not_schema"}
                ELSE IF hard # {} THEN {"~ood"}
                ELSE IF \A k \in DOMAIN r.obs : r.obs[k] \in allowed THEN {} ELSE {"c03:outcome"}

VARIABLES l, bad
INSTANCE TraceChain WITH Clauses <- ClausesOf
=============================================================================
