------------------------------- MODULE Trace_Uri -------------------------------
(***************************************************************************)
(* Resolver "resolve" events recorded from the real code: the URL a        *)
(* reference was resolved to must be the RFC 3986 resolution of the        *)
(* reference against the scope in effect (module Uri), wherever RFC 3986   *)
(* defines it.  scope, ref, url are texts.                                 *)
(***************************************************************************)
EXTENDS Uri, TLC

ClausesOf(r) ==
  IF ~ResolveDefined(r.scope, r.ref) THEN {"~undefined_by_rfc3986"}
  ELSE IF r.ref = <<>> THEN {"~empty_reference"}
  \* compared as (document part, fragment), an absent and an empty fragment identified: whether a join keeps a bare
  \* trailing "#" is presentation, not designation
  ELSE IF Defrag(r.url) = Defrag(ResolveText(r.scope, r.ref)) THEN {} ELSE {"uri_resolution"}

VARIABLES l, bad
INSTANCE TraceChain WITH Clauses <- ClausesOf
=============================================================================
