---------------------------- MODULE Trace_Verdict ----------------------------
(***************************************************************************)
(* Verdict records judged by Semantics: used to calibrate the specification*)
(* against the official JSON-Schema-Test-Suite (the recorded verdict is    *)
(* the suite's expectation) and to validate verdicts recorded from the     *)
(* real validator classes (C01).                                           *)
(*   d, S (schema), I (instance), base (text), pats, uselib, valid         *)
(* LIB_FILE: JSON array of [u, doc] store documents (the bundled           *)
(* metaschemas and the suite's remotes).                                   *)
(***************************************************************************)
EXTENDS Meta, TLC

EnvOf(r) == EnvN(r.S, r.base, IF r.uselib THEN Lib ELSE <<>>, r.pats)

ClausesOf(r) ==
  LET env == EnvOf(r) IN
  IF ~PatsOK(env) THEN {"~badregex"}
  ELSE LET res == Run(r.d, env, r.S, r.I) IN
       IF res.ood # {} THEN {"~ood"}
       ELSE IF res.exc # {} THEN {"~exc"}
       ELSE IF (res.errs = <<>>) # r.valid THEN {"verdict"} ELSE {}

VARIABLES l, bad
INSTANCE TraceChain WITH Clauses <- ClausesOf
=============================================================================
